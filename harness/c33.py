"""C33 — vector arithmetic and scaling round-trips match NumPy.

Three parties per case:
  * the real `DefaultVector`s of a freshly set-up Problem (root and sub-system vectors, nonlinear and
    linear, with/without complex storage) driven through their API by a random operation history;
  * the Lean model (`OMV.C33.step`, the definitions the theorems are about) run on the same history
    by the native driver;
  * a direct oracle: the same history replayed with plain NumPy statements on plain arrays kept by
    the harness, with the layout (cumulative sizes), the scaling arrays (from ref/ref0/res_ref/units
    as documented) and the scale formulas computed independently of both.
All data are small dyadic rationals and all scalers powers of two, so comparison is exact; a history
is only compared while every value stays in a fixed-point class in which IEEE arithmetic is exact.
"""
import math
import warnings
from fractions import Fraction

import numpy as np

from common import Property, Infra, rat, unrat

KINDS = ['input', 'output', 'residual']
LIN = ['nonlinear', 'linear']
DY = [Fraction(k, 4) for k in range(-16, 17)]
SMALL = [Fraction(k, 2) for k in range(-6, 7)]
MULS = [Fraction(0), Fraction(1), Fraction(-1), Fraction(2), Fraction(-2), Fraction(1, 2),
        Fraction(-1, 2), Fraction(4), Fraction(1, 4), Fraction(2), Fraction(-1), Fraction(1, 2)]
ODD_MULS = [Fraction(3), Fraction(3, 2), Fraction(-3, 4), Fraction(5, 4)]
POW2 = [Fraction(1, 4), Fraction(1, 2), Fraction(2), Fraction(4), Fraction(8), Fraction(-1),
        Fraction(-2), Fraction(-1, 2), Fraction(2), Fraction(4)]
SHAPES = [(), (), (1,), (2,), (3,), (3,), (4,), (5,), (2, 2), (2, 3), (3, 2), (1, 2), (0,)]
# dyadic unit families (registered in _units_once): (name, conversion is exact)
FAM_A = ['m', 'omvl4', 'omvl8']          # pure factors 4, 1/8
FAM_T = ['degK', 'omvt2', 'omvt4']       # factor and offset
FPBITS = 20
MULBITS = 6
DOTBITS = 10

_UNITS_DONE = False


def _units_once():
    """Custom units whose conversion factors and offsets are dyadic, so unit scaling is exact."""
    global _UNITS_DONE
    if _UNITS_DONE:
        return
    from openmdao.utils.units import add_unit, add_offset_unit
    add_unit('omvl4', '4*m')
    add_unit('omvl8', '0.125*m')
    add_offset_unit('omvt2', 'degK', 0.5, 8.0)
    add_offset_unit('omvt4', 'degK', 4.0, -3.0)
    _UNITS_DONE = True


# ------------------------------------------------------------------------------------------------
# values on the wire: "n/d" (real) or ["n/d", "n/d"] (complex)

def frat(x):
    """normalised "n/d" of a Python float (same text as common.rat and as the Lean driver prints)"""
    return '%d/%d' % x.as_integer_ratio()


def enc(z):
    if isinstance(z, (complex, np.complexfloating)):
        if z.imag == 0:
            return frat(float(z.real))
        return [frat(float(z.real)), frat(float(z.imag))]
    return frat(float(z))


def enc_arr(a):
    a = np.asarray(a).ravel()
    if np.iscomplexobj(a):
        return [frat(x.real) if x.imag == 0 else [frat(x.real), frat(x.imag)] for x in a.tolist()]
    return [frat(x) for x in a.tolist()]


def dec(v):
    """-> (Fraction re, Fraction im)"""
    if isinstance(v, list):
        return unrat(v[0]), unrat(v[1])
    return unrat(v), Fraction(0)


def dec_np(vals):
    """list of wire values -> 1-D float or complex ndarray"""
    ps = [dec(v) for v in vals]
    if any(im != 0 for _, im in ps):
        return np.array([complex(float(r), float(i)) for r, i in ps], dtype=complex)
    return np.array([float(r) for r, _ in ps], dtype=float)


def same(a, b):
    """exact equality of two wire arrays (both sides are normalised: lowest terms, positive
    denominator, a complex value with zero imaginary part written as a real)"""
    return a == b


def _fp1(s, lim):
    n, _, d = s.partition('/')
    n = int(n)
    d = int(d) if d else 1
    return d <= lim and (d & (d - 1)) == 0 and abs(n) < lim * d


def fp_ok(vals, bits):
    """every value is a multiple of 2^-bits below 2^bits in magnitude (both parts)"""
    lim = 1 << bits
    for v in vals:
        if isinstance(v, list):
            if not (_fp1(v[0], lim) and _fp1(v[1], lim)):
                return False
        elif not _fp1(v, lim):
            return False
    return True


def shape_len(s):
    n = 1
    for k in s:
        n *= k
    return n


def bc(v, n):
    """ref-like value (wire scalar or list) -> list of n Fractions"""
    if isinstance(v, list):
        return [unrat(x) for x in v]
    return [unrat(v)] * n


def norm_pos(k, n):
    """NumPy's reading of one integer index into a length-n axis; n (out of range) when invalid"""
    if 0 <= k < n:
        return k
    if -n <= k < 0:
        return n + k
    return n + (k - n if k >= n else 0)


def midx(idx, n):
    """1-D index in harness form -> the model's Idx (full / clipped non-negative range / positions).
    Negative entries and general slices are resolved the way NumPy documents them."""
    if idx is None or idx[0] == 'r':
        return idx
    if idx[0] == 's':
        return ['l', list(range(*slice(idx[1], idx[2], idx[3]).indices(n)))]
    if idx[0] == 'i':
        return ['l', [norm_pos(idx[1], n)]]
    return ['l', [norm_pos(k, n) for k in idx[1]]]


def py_index(c):
    """one index component in harness form -> Python/NumPy index object"""
    if c[0] == 'r':
        return slice(c[1], c[2])
    if c[0] == 's':
        return slice(c[1], c[2], c[3])
    if c[0] == 'i':
        return c[1]
    return list(c[1]) if len(c[1]) % 2 else np.array(c[1], dtype=int)


def nd_index(op):
    comps = [py_index(c) for c in op['I']]
    return tuple(comps) if op['tuple'] else comps[0]


def nd_resolve(shape, I, value):
    """What NumPy makes of `a[I] = value` on an array of this shape, in flat terms:
    (positions in selection order | None, values assigned by direct assignment | None)."""
    size = shape_len(shape)
    try:
        pos = np.arange(size).reshape(shape)[I]
    except Exception:
        return None, None
    sel = [int(x) for x in np.asarray(pos).ravel().tolist()]
    scratch = np.zeros(shape, dtype=complex)
    try:
        scratch[I] = value
    except Exception:
        return sel, None
    return sel, enc_arr(np.asarray(scratch[I]).ravel())


# ------------------------------------------------------------------------------------------------
# what the generator, the oracle and the model requests derive from the spec alone

class SpecInfo:
    def __init__(self, spec):
        self.spec = spec
        self.var = {}        # abs name -> dict(io, shape, size, units, ref, ref0, res_ref, comp)
        self.sys_vars = {'': {'input': [], 'output': []}}
        for g in spec['groups']:
            self.sys_vars[g] = {'input': [], 'output': []}
        self.src = {tgt: src for _, src, tgt in spec['conns']}
        for c in spec['comps']:
            path = c['path']
            self.sys_vars[path] = {'input': [], 'output': []}
            parent = path.rpartition('.')[0]
            for io, key in (('input', 'ins'), ('output', 'outs')):
                for v in c[key]:
                    name = path + '.' + v['name']
                    d = dict(v)
                    d['io'] = io
                    d['shape'] = tuple(v['shape'])
                    d['size'] = shape_len(d['shape'])
                    d['comp'] = path
                    self.var[name] = d
                    self.sys_vars[path][io].append(name)
                    if parent:
                        self.sys_vars[parent][io].append(name)
                    self.sys_vars[''][io].append(name)
        self.auto = [n for n in self.sys_vars['']['input'] if n not in self.src]
        outs = [self.var[n] for n in self.sys_vars['']['output']]
        one, zero = Fraction(1), Fraction(0)
        self.has_out_scaling = any(any(x != one for x in bc(o['ref'], 1)) or
                                   any(x != zero for x in bc(o['ref0'], 1)) for o in outs)
        self.has_out_adder = any(any(x != zero for x in bc(o['ref0'], 1)) for o in outs)
        self.has_res_scaling = any(o['res_ref'] is not None and
                                   any(x != one for x in bc(o['res_ref'], 1)) for o in outs)
        self.units_differ = any(self._conv(t) is not None for t in self.src)
        # Group._check_connections: a group has input scaling when, for a connection it owns (lowest
        # common group of source and target; _auto_ivc connections belong to the root), the group
        # itself has output scaling or the units differ; the flag propagates to the parents.
        self.has_in_scaling = any(self.sys_has_out_scaling(owner) or self._conv(tgt) is not None
                                  for owner, _, tgt in spec['conns']) or \
            (bool(self.auto) and self.has_out_scaling)
        self.nl_alloc = bool(spec['force_cx'])
        self.ln_alloc = bool(spec['force_cx'] and spec['newton'] is not None)

    def _conv(self, tgt):
        """(factor, offset) of the unit conversion source -> target input, None when there is none"""
        s = self.var[self.src[tgt]]
        t = self.var[tgt]
        if s.get('units') is None or t.get('units') is None or s['units'] == t['units']:
            return None
        _units_once()
        from openmdao.utils.units import unit_conversion
        f, o = unit_conversion(s['units'], t['units'])
        return Fraction(f), Fraction(o)

    def size(self, kind, sys):
        io = 'input' if kind == 'input' else 'output'
        n = sum(self.var[v]['size'] for v in self.sys_vars[sys][io])
        if sys == '' and io == 'output':
            n += sum(self.var[v]['size'] for v in self.auto)
        return n

    def alloc(self, lin):
        return self.nl_alloc if lin == 0 else self.ln_alloc

    # scale factors (a0, a1, unit) per kind, in the documented meaning of ref / ref0 / res_ref:
    # physical = ref0 + (ref - ref0) * scaled ; residual physical = res_ref * scaled ;
    # input in its own units = (source value + offset) * factor
    def factors(self, kind):
        out = {}
        one, zero = Fraction(1), Fraction(0)
        if kind == 'output' and self.has_out_scaling:
            for n in self.sys_vars['']['output']:
                v = self.var[n]
                k = max(len(bc(v['ref'], 1)), len(bc(v['ref0'], 1)))
                ref, ref0 = bc(v['ref'], k), bc(v['ref0'], k)
                a1 = [a - b for a, b in zip(ref, ref0)]
                if any(x != zero for x in ref0) or any(x != one for x in a1) or k > 1:
                    out[n] = (ref0, a1, None)
        elif kind == 'residual' and self.has_res_scaling:
            for n in self.sys_vars['']['output']:
                v = self.var[n]
                if v['res_ref'] is None:
                    continue
                rr = bc(v['res_ref'], 1)
                if len(rr) > 1 or rr[0] != one:
                    out[n] = ([zero], rr, None)
        elif kind == 'input' and self.has_in_scaling:
            for n, s in self.src.items():
                sv = self.var[s]
                k = max(len(bc(sv['ref'], 1)), len(bc(sv['ref0'], 1)))
                ref, ref0 = bc(sv['ref'], k), bc(sv['ref0'], k)
                a1 = [a - b for a, b in zip(ref, ref0)]
                has_sc = k > 1 or ref[0] != one or ref0[0] != zero
                conv = self._conv(n)
                if not has_sc and conv is None:
                    continue
                out[n] = (ref0, a1, conv)
        return out

    def has_scaling(self, kind):
        if kind == 'output':
            return self.has_out_scaling or self.has_out_adder
        if kind == 'residual':
            return self.has_res_scaling
        adder = False
        for (a0, _, conv) in self.factors('input').values():
            for x in a0:
                y = x if conv is None else (x + conv[1]) * conv[0]
                adder |= (y != 0)
        return self.has_in_scaling or adder

    def has_adder(self, kind):
        if kind == 'output':
            return self.has_out_adder
        if kind == 'residual':
            return self.has_res_scaling
        for (a0, _, conv) in self.factors('input').values():
            for x in a0:
                y = x if conv is None else (x + conv[1]) * conv[0]
                if y != 0:
                    return True
        return False

    def sys_has_out_scaling(self, sys):
        one, zero = Fraction(1), Fraction(0)
        return any(any(x != one for x in bc(self.var[n]['ref'], 1)) or
                   any(x != zero for x in bc(self.var[n]['ref0'], 1))
                   for n in self.sys_vars[sys]['output'])

    def sys_has_res_scaling(self, sys):
        one = Fraction(1)
        return any(self.var[n]['res_ref'] is not None and
                   any(x != one for x in bc(self.var[n]['res_ref'], 1))
                   for n in self.sys_vars[sys]['output'])


def info_size0(info, kind, sys):
    return info.size(kind, sys) == 0


def systems(spec):
    return [''] + list(spec['groups']) + [c['path'] for c in spec['comps']]


def chain_of(sys):
    """'' -> [], 'g' -> ['g'], 'g.c1' -> ['g', 'g.c1'], 'c3' -> ['c3']"""
    if not sys:
        return []
    parts = sys.split('.')
    return ['.'.join(parts[:k + 1]) for k in range(len(parts))]


# ------------------------------------------------------------------------------------------------
# generator

def gen_spec(rng):
    _units_once()
    ngroups = rng.choice([1, 1, 2])
    groups = ['g', 'h'][:ngroups]
    comps = []
    scaling_mode = rng.choice(['none', 'some', 'some', 'all', 'resonly'])
    unit_mode = rng.choice(['none', 'none', 'A', 'T', 'mixed'])
    parents = []
    for g in groups:
        parents += [g] * rng.choice([1, 2, 2])
    parents += [''] * rng.choice([0, 1, 1, 2])
    rng.shuffle(parents)
    for k, par in enumerate(parents):
        cname = 'c%d' % (k + 1)
        path = (par + '.' if par else '') + cname
        implicit = rng.random() < 0.25
        nin = rng.choice([0, 1, 2, 2])
        nout = rng.choice([1, 1, 2, 3]) if nin == 0 or rng.random() < 0.9 else 0
        ins, outs = [], []
        for j in range(nout):
            shape = rng.choice(SHAPES)
            n = shape_len(shape)
            v = {'name': 'y%d' % j, 'shape': list(shape), 'units': None,
                 'ref': rat(1), 'ref0': rat(0), 'res_ref': None}
            if unit_mode != 'none' and rng.random() < 0.7:
                fam = {'A': FAM_A, 'T': FAM_T}.get(unit_mode) or rng.choice([FAM_A, FAM_T])
                v['units'] = rng.choice(fam)
            do = {'none': 0.0, 'some': 0.5, 'all': 1.0, 'resonly': 0.0}[scaling_mode]
            if rng.random() < do:
                arr = n > 1 and rng.random() < 0.4
                form = rng.choice(['ref', 'ref', 'both', 'both', 'ref0'])
                if form in ('both', 'ref0'):
                    r0 = [rng.choice(SMALL) for _ in range(n)] if arr else rng.choice(SMALL)
                else:
                    r0 = Fraction(0)
                if form == 'ref0':
                    # only ref0 given: ref stays 1, so ref - ref0 must be a power of two
                    r0 = [Fraction(1) - rng.choice(POW2) for _ in range(n)] if arr \
                        else Fraction(1) - rng.choice(POW2)
                    rf = Fraction(1)
                elif arr:
                    r0l = r0 if isinstance(r0, list) else [r0] * n
                    rf = [a + rng.choice(POW2) for a in r0l]
                else:
                    rf = r0 + rng.choice(POW2)
                v['ref'] = [rat(x) for x in rf] if isinstance(rf, list) else rat(rf)
                v['ref0'] = [rat(x) for x in r0] if isinstance(r0, list) else rat(r0)
            if scaling_mode != 'none' and rng.random() < (0.8 if scaling_mode == 'resonly' else 0.35):
                if n > 1 and rng.random() < 0.4:
                    v['res_ref'] = [rat(rng.choice(POW2)) for _ in range(n)]
                else:
                    v['res_ref'] = rat(rng.choice(POW2))
            if v['res_ref'] is None and not implicit:
                # ExplicitComponent.add_output defaults res_ref to ref; keep that default only when
                # it is a power of two (exact division), otherwise give res_ref explicitly
                def pow2(x):
                    x = abs(unrat(x))
                    return x != 0 and (x.numerator & (x.numerator - 1)) == 0 and \
                        (x.denominator & (x.denominator - 1)) == 0
                rl = v['ref'] if isinstance(v['ref'], list) else [v['ref']]
                if all(pow2(x) for x in rl):
                    v['res_ref'] = v['ref']
                    v['res_ref_default'] = True
                else:
                    v['res_ref'] = rat(rng.choice(POW2))
            outs.append(v)
        for j in range(nin):
            ins.append({'name': 'x%d' % j, 'shape': list(rng.choice(SHAPES)), 'units': None})
        if not ins and not outs:
            outs.append({'name': 'y0', 'shape': [2], 'units': None, 'ref': rat(1), 'ref0': rat(0),
                         'res_ref': None if implicit else rat(1)})
        comps.append({'path': path, 'implicit': implicit, 'ins': ins, 'outs': outs})
    # connections: same shape, different component; the input takes units of the source's family
    conns = []
    all_outs = [(c['path'], o) for c in comps for o in c['outs']]
    for c in comps:
        for i in c['ins']:
            cands = [(p, o) for p, o in all_outs if p != c['path'] and o['shape'] == i['shape']]
            if cands and rng.random() < 0.85:
                p, o = rng.choice(cands)
                if o['units'] is not None:
                    fam = FAM_A if o['units'] in FAM_A else FAM_T
                    i['units'] = rng.choice(fam + [o['units']])
                src, tgt = p + '.' + o['name'], c['path'] + '.' + i['name']
                ga, gb = p.rpartition('.')[0], c['path'].rpartition('.')[0]
                owner = ga if ga == gb else ''
                conns.append([owner, src, tgt])
            elif unit_mode != 'none' and rng.random() < 0.3:
                i['units'] = rng.choice(FAM_A + FAM_T)
    newton = None
    if rng.random() < 0.35:
        newton = rng.choice([''] + groups)
    return {'groups': groups, 'comps': comps, 'conns': conns, 'newton': newton,
            'force_cx': rng.random() < 0.7}


class OpGen:
    def __init__(self, rng, spec, malformed):
        self.rng = rng
        self.spec = spec
        self.info = SpecInfo(spec)
        self.cs = False
        self.malformed = malformed
        self.depth = {}     # (kind, lin) -> net number of to-norm calls, kept in [-1, 1]
        self.odd = 0
        self.syss = systems(spec)

    def pick_vec(self, want_nonempty=True):
        rng, info = self.rng, self.info
        for _ in range(20):
            kind = rng.choice(KINDS)
            lin = rng.choice([0, 0, 1])
            sys = rng.choice(self.syss) if rng.random() < 0.65 else ''
            if not want_nonempty or info.size(kind, sys) > 0:
                return [kind, lin, sys]
        return ['output', 0, '']

    def cx_ok(self, v):
        return self.cs and self.info.alloc(v[1])

    def val(self, v, pool=DY):
        r = self.rng.choice(pool)
        if self.cx_ok(v) and self.rng.random() < 0.5:
            return [rat(r), rat(self.rng.choice(SMALL))]
        return rat(r)

    def mulval(self, v):
        rng = self.rng
        if self.odd < 3 and rng.random() < 0.15:
            self.odd += 1
            r = rng.choice(ODD_MULS)
        else:
            r = rng.choice(MULS)
        if self.cx_ok(v) and rng.random() < 0.3:
            return [rat(r), rat(rng.choice([Fraction(1), Fraction(-1), Fraction(1, 2), Fraction(2)]))]
        return rat(r)

    def vals(self, v, n, f='add'):
        """(vals, scalar?) for an operand addressed to n positions"""
        rng = self.rng
        one = (lambda: self.mulval(v)) if f == 'mul' else (lambda: self.val(v))
        if self.malformed and n >= 1 and rng.random() < 0.3:
            return [one() for _ in range(n + 1)], False       # cannot broadcast
        if rng.random() < 0.4 or n == 0:
            return [one()], rng.random() < 0.7
        return [one() for _ in range(n)], False

    def idx(self, n):
        rng = self.rng
        r = rng.random()
        if r < 0.45 or n == 0:
            return None
        if r < 0.58:
            a = rng.randrange(0, n + 1)
            b = rng.randrange(a, n + 2)         # may exceed n: NumPy clips
            return ['r', a, b]
        if r < 0.68:
            # general slice: negative bounds, steps (also negative), open ends
            return ['s', rng.choice([None, None, rng.randrange(-n - 1, n + 2)]),
                    rng.choice([None, None, rng.randrange(-n - 1, n + 2)]),
                    rng.choice([None, 1, 2, 2, 3, -1, -2])]
        neg = rng.random() < 0.4
        if r < 0.9:
            k = rng.randrange(0, min(n, 4) + 1)
            ps = [rng.randrange(-n if neg else 0, n) for _ in range(k)]   # duplicates allowed
            if self.malformed and rng.random() < 0.3:
                ps.append(rng.choice([n + rng.randrange(0, 3), -n - 1 - rng.randrange(0, 2)]))
            return ['l', ps]
        return ['i', rng.randrange(-n if neg else 0, n)]

    @staticmethod
    def idx_count(idx, n):
        if idx is None:
            return n
        if idx[0] == 'r':
            return max(0, min(idx[2], n) - min(idx[1], n))
        if idx[0] == 's':
            return len(range(*slice(idx[1], idx[2], idx[3]).indices(n)))
        if idx[0] == 'l':
            return len(idx[1])
        return 1

    def partner(self, v, same_size=True):
        """another vector usable as operand: same length; compatible storage under complex step"""
        info, rng = self.info, self.rng
        n = info.size(v[0], v[2])
        cands = []
        for kind in KINDS:
            for lin in (0, 1):
                for sys in self.syss:
                    w = [kind, lin, sys]
                    if (info.size(kind, sys) == n) != same_size:
                        continue
                    if self.cs and info.alloc(lin) != info.alloc(v[1]):
                        continue
                    cands.append(w)
        if not cands:
            return None
        # prefer the structurally related vectors (outputs <-> residuals of the same system)
        rel = [w for w in cands if w[2] == v[2]]
        return rng.choice(rel if rel and rng.random() < 0.8 else cands)

    def names(self, v):
        io = 'input' if v[0] == 'input' else 'output'
        return self.info.sys_vars[v[2]][io]

    def rel(self, v, absname):
        return absname[len(v[2]) + 1:] if v[2] else absname

    def scaled_kinds(self):
        return [k for k in KINDS if self.info.has_scaling(k)]

    def gen(self, nops, head_nd=0):
        rng, info = self.rng, self.info
        ops = []
        # start from random data in all six root vectors
        for kind in KINDS:
            for lin in (0, 1):
                n = info.size(kind, '')
                ops.append({'api': 'set_val', 'v': [kind, lin, ''], 'idx': None, 'scalar': False,
                            'vals': [rat(rng.choice(DY)) for _ in range(n)]})
        for _ in range(head_nd):
            g = self.g_set_var_nd(force=True)
            if g is not None:
                ops.append(g)
        # with complex storage: leave imaginary parts behind, so that the difference between
        # `_data` and `asarray()` (which hides them outside complex step) is visible afterwards
        if info.nl_alloc and rng.random() < 0.7:
            ops.append({'api': 'cs', 'b': True})
            self.cs = True
            for kind in KINDS:
                for lin in (0, 1):
                    n = info.size(kind, '')
                    if info.alloc(lin) and n and rng.random() < 0.8:
                        ops.append({'api': 'set_val', 'v': [kind, lin, ''], 'idx': None,
                                    'scalar': False,
                                    'vals': [[rat(rng.choice(DY)), rat(rng.choice(SMALL))]
                                             for _ in range(n)]})
            if rng.random() < 0.6:
                ops.append({'api': 'cs', 'b': False})
                self.cs = False
        weights = [('set_val', 4), ('iarith', 14), ('op_arr', 6), ('op_vec', 7), ('set_vec', 4),
                   ('add_scal_vec', 6), ('dot', 5), ('norm', 4), ('get', 5), ('set_var', 9),
                   ('abs_set_val', 8), ('set_var_nd', 9), ('iop', 6), ('set_vals', 2), ('add_to_slice', 3),
                   ('get_slice', 2), ('scale', 14), ('ctx', 5), ('cs', 7)]
        names = [w[0] for w in weights]
        wts = [w[1] for w in weights]
        while len(ops) < nops + 6:
            api = rng.choices(names, wts)[0]
            op = getattr(self, 'g_' + api)()
            if op is not None:
                ops.extend(op if isinstance(op, list) else [op])
        # leave every vector in physical state (and exercise the return trip)
        for (kind, lin), d in sorted(self.depth.items()):
            while d != 0:
                ops.append({'api': 'scale', 'v': [kind, lin, ''], 'norm': d < 0, 'mode': 'fwd'})
                d += 1 if d < 0 else -1
        return ops

    # -- single op generators
    def g_set_val(self):
        v = self.pick_vec()
        n = self.info.size(v[0], v[2])
        idx = self.idx(n)
        vals, scalar = self.vals(v, self.idx_count(idx, n))
        if idx is not None and idx[0] == 'i':
            vals, scalar = vals[:1], True
        return {'api': 'set_val', 'v': v, 'vals': vals, 'scalar': scalar, 'idx': idx}

    def g_iarith(self):
        f = self.rng.choice(['add', 'add', 'sub', 'sub', 'mul'])
        v = self.pick_vec()
        n = self.info.size(v[0], v[2])
        idx = self.idx(n)
        vals, scalar = self.vals(v, self.idx_count(idx, n), f)
        if idx is not None and idx[0] == 'i':
            vals, scalar = vals[:1], True
        return {'api': 'i' + f, 'v': v, 'vals': vals, 'scalar': scalar, 'idx': idx}

    def g_op_arr(self):
        f = self.rng.choice(['add', 'sub', 'mul', 'mul'])
        v = self.pick_vec()
        vals, scalar = self.vals(v, self.info.size(v[0], v[2]), f)
        return {'api': 'op_arr', 'f': f, 'v': v, 'vals': vals, 'scalar': scalar}

    def g_op_vec(self):
        f = self.rng.choice(['add', 'add', 'sub', 'sub', 'mul'])
        v = self.pick_vec()
        w = self.partner(v, same_size=not (self.malformed and self.rng.random() < 0.3))
        if w is None:
            return None
        return {'api': 'op_vec', 'f': f, 'v': v, 'w': w}

    def g_set_vec(self):
        v = self.pick_vec()
        w = self.partner(v)
        if w is None:
            return None
        return {'api': 'set_vec', 'v': v, 'w': w}

    def g_add_scal_vec(self):
        v = self.pick_vec()
        w = self.partner(v)
        if w is None:
            return None
        return {'api': 'add_scal_vec', 'v': v, 'w': w, 'c': self.mulval(v)}

    def g_dot(self):
        v = self.pick_vec()
        w = self.partner(v)
        if w is None:
            return None
        return {'api': 'dot', 'v': v, 'w': w}

    def g_norm(self):
        return {'api': 'norm', 'v': self.pick_vec(want_nonempty=False)}

    def pick_named(self):
        for _ in range(10):
            v = self.pick_vec()
            ns = self.names(v)
            if ns:
                return v, self.rng.choice(ns)
        return None, None

    def g_get(self):
        v, name = self.pick_named()
        if v is None:
            return None
        if self.malformed and self.rng.random() < 0.3:
            return {'api': 'get', 'v': v, 'name': 'no_such_var', 'how': 'getitem'}
        return {'api': 'get', 'v': v, 'name': self.rel(v, name),
                'how': self.rng.choice(['getitem', 'get_val'])}

    def g_set_var(self):
        rng = self.rng
        v, name = self.pick_named()
        if v is None:
            return None
        var = self.info.var[name]
        n = var['size']
        if self.malformed and rng.random() < 0.2:
            return {'api': 'set_var', 'v': v, 'name': 'no_such_var', 'vals': [rat(1)], 'scalar': True,
                    'idx': None, 'flat': False, 'how': 'set_var', 'shaped': False}
        flat = rng.random() < 0.45
        idx = self.idx(n) if flat else None
        if idx is not None and idx[0] == 'i':
            idx = ['l', [idx[1]]]
        vals, scalar = self.vals(v, self.idx_count(idx, n))
        how = 'setitem' if (not flat and idx is None and rng.random() < 0.5) else 'set_var'
        return {'api': 'set_var', 'v': v, 'name': self.rel(v, name), 'vals': vals, 'scalar': scalar,
                'idx': idx, 'flat': flat, 'how': how,
                'shaped': (not flat) and len(vals) == n and rng.random() < 0.5}

    def g_set_var_nd(self, force=False):
        """set_var with flat=False and a general NumPy index on the shaped variable; the value is
        exact / broadcastable / same size but another shape (reshape fallback) / wrong size"""
        rng = self.rng
        for _ in range(30):
            v, name = self.pick_named()
            if v is None:
                return None
            var = self.info.var[name]
            if len(var['shape']) >= 1 and var['size'] >= (2 if force else 1):
                break
        else:
            return None
        shape = tuple(var['shape'])

        def comp(n, kind, k=None):
            if kind == 'int':
                c = rng.randrange(-n, n)
                if self.malformed and rng.random() < 0.2:
                    c = rng.choice([n, -n - 1])
                return ['i', c]
            if kind == 'slice':
                return ['s', rng.choice([None, None, rng.randrange(-n, n + 1)]),
                        rng.choice([None, None, rng.randrange(-n, n + 1)]),
                        rng.choice([None, None, 1, 2, -1])]
            k = k or rng.randrange(1, n + 1)
            ps = rng.sample(range(n), min(k, n))          # reordered, no duplicates
            ps = [q - n if rng.random() < 0.35 else q for q in ps]
            if self.malformed and rng.random() < 0.2:
                ps[rng.randrange(len(ps))] = rng.choice([n, n + 1, -n - 1])
            return ['l', ps]
        if len(shape) == 1:
            kinds = rng.choice([['array'], ['array'], ['array'], ['slice'], ['int']])
            if force:
                kinds = ['array']
            I = [comp(shape[0], kinds[0])]
            tup = rng.random() < 0.2
        else:
            kinds = rng.choice([['array'], ['array'], ['int'], ['slice'], ['slice', 'array'],
                                ['slice', 'array'], ['array', 'slice'], ['array', 'slice'],
                                ['int', 'slice'], ['slice', 'int'], ['array', 'array'],
                                ['slice', 'slice'], ['int', 'array'], ['array', 'int']])
            if force:
                kinds = rng.choice([['array'], ['slice', 'array'], ['array', 'slice'],
                                    ['array', 'array']])
            if kinds == ['array', 'array']:
                k = rng.randrange(1, min(shape) + 1)
                I = [comp(shape[0], 'array', k), comp(shape[1], 'array', k)]
                if len(I[0][1]) != len(I[1][1]):
                    return None
            else:
                I = [comp(shape[j], kd) for j, kd in enumerate(kinds)]
            tup = len(I) > 1 or rng.random() < 0.2
        op = {'api': 'set_var_nd', 'v': v, 'name': self.rel(v, name), 'I': I, 'tuple': tup}
        try:
            sshape = np.empty(shape)[nd_index(op)].shape
        except Exception:
            sshape = None
        if sshape is None:
            vkind, vshape = 'bad_index', (2,)
        else:
            m = shape_len(sshape)
            cands = [('exact', sshape), ('exact', sshape), ('scalar', ()), ('wrong_size', (m + 1,))]
            if len(sshape) == 2:
                cands.append(('trailing', sshape[-1:]))
                if sshape[0] > 1 and m > 1:
                    cands += [('reshape', (m,))] * 4
                if sshape[0] != sshape[1]:
                    cands += [('reshape', (sshape[1], sshape[0]))] * 2
            if len(sshape) == 1 and m >= 2:
                cands += [('reshape', (m, 1))] * 5 + [('lead1', (1, m))]
            if len(sshape) == 1 and m == 1:
                cands += [('lead1', (1, 1))]
            if force and any(c[0] == 'reshape' for c in cands):
                cands = [c for c in cands if c[0] == 'reshape']
            vkind, vshape = rng.choice(cands)
        nv = shape_len(vshape)
        op.update({'vals': [self.val(v) for _ in range(nv)], 'vshape': list(vshape), 'vkind': vkind,
                   'pyscalar': vkind == 'scalar' and rng.random() < 0.5})
        return op

    def g_abs_set_val(self):
        v, name = self.pick_named()
        if v is None:
            return None
        var = self.info.var[name]
        n = var['size']
        idx = self.idx(n) if len(var['shape']) <= 1 else None
        if idx is not None and idx[0] == 'i' and len(var['shape']) == 0:
            idx = None
        vals, scalar = self.vals(v, self.idx_count(idx, n))
        if idx is not None and idx[0] == 'i':
            vals, scalar = vals[:1], True
        if len(var['shape']) > 1 and len(vals) == n + 1:
            vals = vals[:n]
        return {'api': 'abs_set_val', 'v': v, 'name': name, 'vals': vals, 'scalar': scalar, 'idx': idx,
                'shaped': len(vals) == n and len(var['shape']) > 1}

    def g_iop(self):
        v, name = self.pick_named()
        if v is None:
            return None
        n = self.info.var[name]['size']
        f = self.rng.choice(['add', 'add', 'sub', 'mul'])
        one = (lambda: self.mulval(v)) if f == 'mul' else (lambda: self.val(v))
        if self.rng.random() < 0.5 or n == 0:
            vals, scalar = [one()], True
        else:
            vals, scalar = [one() for _ in range(n)], False
        return {'api': 'iop', 'v': v, 'name': self.rel(v, name), 'f': f, 'vals': vals,
                'scalar': scalar}

    def g_set_vals(self):
        v = self.pick_vec()
        by = {}
        for name in self.names(v):
            n = self.info.var[name]['size']
            by[name] = [self.val(v) for _ in range(n)]
        if v[2] == '' and v[0] != 'input':
            return None            # the root output vector also holds _auto_ivc variables
        return {'api': 'set_vals', 'v': v, 'by_name': by}

    def g_add_to_slice(self):
        v = self.pick_vec()
        n = self.info.size(v[0], v[2])
        a = self.rng.randrange(0, n + 1)
        b = self.rng.randrange(a, n + 1)
        m = b - a
        if m == 0:
            return None
        k = m if self.rng.random() < 0.7 else 1
        if self.malformed and self.rng.random() < 0.3:
            k = m + 1
        return {'api': 'add_to_slice', 'v': v, 'a': a, 'b': b, 'vals': [self.val(v) for _ in range(k)]}

    def g_get_slice(self):
        v = self.pick_vec()
        n = self.info.size(v[0], v[2])
        a = self.rng.randrange(0, n + 1)
        return {'api': 'get_slice', 'v': v, 'a': a, 'b': self.rng.randrange(a, n + 2)}

    def g_scale(self):
        rng = self.rng
        kinds = self.scaled_kinds()
        if not kinds:
            if self.malformed and rng.random() < 0.5:
                return None
            return None
        kind = 'input' if ('input' in kinds and rng.random() < 0.4) else rng.choice(kinds)
        lin = rng.choice([0, 1, 1])
        sys = rng.choice(self.syss) if rng.random() < 0.6 else ''
        if info_size0(self.info, kind, sys):
            sys = ''
        mode = 'rev' if (lin == 1 and rng.random() < 0.45) or rng.random() < 0.08 else 'fwd'
        first = rng.random() < 0.7          # to_norm first, or to_phys first (both orders)
        v = [kind, lin, sys]
        a = {'api': 'scale', 'v': v, 'norm': first, 'mode': mode}
        b = {'api': 'scale', 'v': v, 'norm': not first, 'mode': mode}
        key = (kind, lin)
        d = self.depth.get(key, 0)
        if d != 0:
            return None
        # something harmless in between (must not multiply while values are spread out)
        mid = []
        for _ in range(rng.choice([0, 1, 1, 2])):
            g = rng.choice([self.g_get, self.g_norm, self.g_dot, self.g_get_slice, self.g_set_var,
                            self.g_set_val])()
            if g is not None:
                mid.append(g)
        return [a] + mid + [b]

    def g_ctx(self):
        rng, info = self.rng, self.info
        sys = rng.choice([s for s in self.syss])
        which = rng.choice(['scaled_all', 'unscaled'])
        if any(self.depth.get((k, l), 0) for k in KINDS for l in (0, 1)):
            return None
        inner = []
        for _ in range(rng.choice([0, 1, 1, 2, 3])):
            g = rng.choice([self.g_set_val, self.g_get, self.g_norm, self.g_set_var, self.g_dot,
                            self.g_get_slice, self.g_set_vec])()
            if g is not None:
                inner.append(g)
        d = {'sys': sys, 'which': which, 'lin_too': rng.random() < 0.5}
        return [dict(d, api='ctx_enter')] + inner + [dict(d, api='ctx_exit')]

    def g_cs(self):
        if not self.info.nl_alloc:
            return None
        rng, info = self.rng, self.info
        self.cs = not self.cs if rng.random() < 0.8 else self.cs
        out = [{'api': 'cs', 'b': self.cs}]
        if self.cs:
            # put imaginary parts into a few complex-capable vectors (root or sub-system)
            for _ in range(rng.choice([1, 2, 3])):
                v = self.pick_vec()
                n = info.size(v[0], v[2])
                if info.alloc(v[1]) and n:
                    out.append({'api': 'set_val', 'v': v, 'idx': None, 'scalar': False,
                                'vals': [[rat(rng.choice(DY)), rat(rng.choice(SMALL))]
                                         for _ in range(n)]})
        return out


# ------------------------------------------------------------------------------------------------
# harness step -> primitive model ops (the JSON the Lean driver understands).  The NumPy oracle
# below interprets the same primitives.

class Ctx:
    """Handles of one case: (kind, lin, sys) -> index; `layout` as observed on the real vectors."""

    def __init__(self, case, layout, srefs):
        self.case = case
        self.info = SpecInfo(case['spec'])
        self.layout = layout        # kind -> sys -> [abs names in vector order]
        self.srefs = srefs          # "kind|lin|sys" -> observed _has_solver_ref
        self.hidx = {}
        self.handles = []

    def h(self, v):
        key = (v[0], int(v[1]), v[2])
        if key not in self.hidx:
            self.hidx[key] = len(self.handles)
            kind, lin, sys = key
            chain = [self.layout[kind][s] for s in chain_of(sys)]
            self.handles.append({'vid': KINDS.index(kind) * 2 + lin, 'chain': chain,
                                 'sref': bool(self.srefs.get('%s|%d|%s' % key, False)),
                                 'key': list(key)})
        return self.hidx[key]

    def absname(self, v, rel):
        return (v[2] + '.' + rel) if v[2] else rel

    def prims(self, op):
        api = op['api']
        if api in ('set_val', 'iadd', 'isub', 'imul'):
            f = {'set_val': 'set', 'iadd': 'add', 'isub': 'sub', 'imul': 'mul'}[api]
            n = self.info.size(op['v'][0], op['v'][2])
            return [{'o': 'arith', 't': self.h(op['v']), 'f': f, 'raw': api == 'set_val',
                     'src': {'vals': op['vals']}, 'idx': midx(op['idx'], n), '_idx': op['idx']}]
        if api == 'op_arr':
            return [{'o': 'arith', 't': self.h(op['v']), 'f': op['f'], 'raw': False,
                     'src': {'vals': op['vals']}, 'idx': None}]
        if api == 'op_vec':
            return [{'o': 'arith', 't': self.h(op['v']), 'f': op['f'], 'raw': False,
                     'src': {'vec': self.h(op['w'])}, 'idx': None}]
        if api == 'set_vec':
            return [{'o': 'arith', 't': self.h(op['v']), 'f': 'set', 'raw': True,
                     'src': {'vec': self.h(op['w'])}, 'idx': None}]
        if api == 'add_scal_vec':
            return [{'o': 'arith', 't': self.h(op['v']), 'f': 'add', 'raw': False,
                     'src': {'scal': op['c'], 'vec': self.h(op['w'])}, 'idx': None}]
        if api == 'dot':
            return [{'o': 'dot', 't': self.h(op['v']), 's': self.h(op['w'])}]
        if api == 'norm':
            return [{'o': 'norm2', 't': self.h(op['v'])}]
        if api == 'get':
            return [{'o': 'get', 't': self.h(op['v']), 'name': self.absname(op['v'], op['name'])}]
        if api == 'set_var':
            absn = self.absname(op['v'], op['name'])
            n = self.info.var[absn]['size'] if absn in self.info.var else 0
            return [{'o': 'named', 't': self.h(op['v']), 'name': absn,
                     'f': 'set', 'raw': True, 'vals': op['vals'], 'idx': midx(op['idx'], n),
                     '_idx': op['idx']}]
        if api == 'set_var_nd':
            absn = self.absname(op['v'], op['name'])
            shape = tuple(self.info.var[absn]['shape'])
            value = dec_np(op['vals']).reshape(tuple(op['vshape']))
            sel, bvals = nd_resolve(shape, nd_index(op), value)
            return [{'o': 'selset', 't': self.h(op['v']), 'name': absn, 'sel': sel, 'bvals': bvals,
                     'vals': op['vals'], '_op': op, '_shape': list(shape)}]
        if api == 'abs_set_val':
            n = self.info.var[op['name']]['size']
            return [{'o': 'named', 't': self.h(op['v']), 'name': op['name'], 'f': 'set', 'raw': False,
                     'vals': op['vals'], 'idx': midx(op['idx'], n), '_idx': op['idx']}]
        if api == 'iop':
            return [{'o': 'iop', 't': self.h(op['v']), 'name': self.absname(op['v'], op['name']),
                     'f': op['f'], 'vals': op['vals']}]
        if api == 'set_vals':
            return [{'o': 'named', 't': self.h(op['v']), 'name': n, 'f': 'set', 'raw': True,
                     'vals': vals, 'idx': None}
                    for n, vals in sorted(op['by_name'].items())]
        if api == 'add_to_slice':
            return [{'o': 'arith', 't': self.h(op['v']), 'f': 'add', 'raw': False,
                     'src': {'vals': op['vals']}, 'idx': ['r', op['a'], op['b']]}]
        if api == 'get_slice':
            return [{'o': 'all', 't': self.h(op['v'])}]
        if api == 'scale':
            return [{'o': 'scale', 't': self.h(op['v']), 'norm': op['norm'],
                     'rev': op['mode'] == 'rev'}]
        if api == 'cs':
            return [{'o': 'cs', 'b': op['b']}]
        if api in ('ctx_enter', 'ctx_exit'):
            sys = op['sys']
            tgt = []
            if self.info.sys_has_out_scaling(sys):
                tgt += [['output', 0, sys], ['output', 1, sys]]
            if self.info.sys_has_res_scaling(sys):
                tgt += [['residual', 0, sys], ['residual', 1, sys]]
            if op['which'] == 'unscaled':
                # _unscaled_context(outputs=[...], residuals=[...]) with the vectors the harness passes
                tgt = [t for t in tgt if t[1] == 0 or op['lin_too']]
            to_norm = (op['which'] == 'scaled_all') == (api == 'ctx_enter')
            return [{'o': 'scale', 't': self.h(t), 'norm': to_norm, 'rev': False} for t in tgt]
        raise Infra('unknown api %r' % api)


# ------------------------------------------------------------------------------------------------
# direct oracle: plain NumPy on plain arrays

class Shadow:
    def __init__(self, case, impl):
        self.info = info = SpecInfo(case['spec'])
        self.ctx = Ctx(case, impl['layout'], impl['srefs'])
        self.cs = False
        self.S = []
        for kind in KINDS:
            for lin in (0, 1):
                n = info.size(kind, '')
                self.S.append(np.zeros(n, dtype=complex if info.alloc(lin) else float))
        # layout: cumulative sizes over the observed order of names; sizes from the declaration
        self.ranges = {}
        for kind in KINDS:
            pos = 0
            r = {}
            for name in impl['layout'][kind]['']:
                size = self.var_size(name, impl)
                r[name] = (pos, pos + size)
                pos += size
            self.ranges[kind] = r
        self.scal = {}
        for kind in KINDS:
            self.scal[kind] = self.expected_scaling(kind)

    def var_size(self, name, impl):
        if name in self.info.var:
            return self.info.var[name]['size']
        shape = impl['auto'].get(name)
        if shape is None:
            raise Infra('cannot size variable %s' % name)
        return shape_len(shape)

    def expected_scaling(self, kind):
        """scaler/adder arrays per flavour from the documented meaning of ref, ref0, res_ref, units"""
        info = self.info
        n = info.size(kind, '')
        if not info.has_scaling(kind):
            return None
        nl_s, nl_a, ln_s = np.ones(n), np.zeros(n), np.ones(n)
        for name, (a0, a1, conv) in info.factors(kind).items():
            s, e = self.ranges[kind][name]
            m = e - s
            a0 = np.array([float(x) for x in (a0 * m if len(a0) == 1 else a0)])
            a1 = np.array([float(x) for x in (a1 * m if len(a1) == 1 else a1)])
            if conv is None:
                nl_s[s:e] = a1
                nl_a[s:e] = a0
                ln_s[s:e] = 1.0 / a1 if kind == 'input' else a1
            else:
                f, o = float(conv[0]), float(conv[1])
                nl_s[s:e] = a1 * f
                nl_a[s:e] = (a0 + o) * f
                ln_s[s:e] = f / a1
        if not (kind == 'input' and info.has_out_scaling):
            # the linear root vector uses the nonlinear scaler array
            ln_s = nl_s
        return {'nl': (nl_s, nl_a), 'ln': (ln_s, None)}

    # -- helpers
    def geom(self, hi):
        h = self.ctx.handles[hi]
        kind, lin, sys = h['key']
        names = self.ctx.layout[kind][sys]
        if not names:
            return h['vid'], None, 0      # owns a separate empty array
        off = self.ranges[kind][names[0]][0]
        n = sum(self.ranges[kind][x][1] - self.ranges[kind][x][0] for x in names)
        return h['vid'], off, n

    def base(self, hi):
        vid, off, n = self.geom(hi)
        if off is None:
            return np.zeros(0, dtype=self.S[vid].dtype)
        return self.S[vid][off:off + n]

    def view(self, hi, raw=False):
        b = self.base(hi)
        if raw or (self.cs and np.iscomplexobj(b)):
            return b
        return b.real

    def var_view(self, hi, name, raw=False):
        h = self.ctx.handles[hi]
        kind, lin, sys = h['key']
        if name not in self.ctx.layout[kind][sys]:
            raise KeyError(name)
        s, e = self.ranges[kind][name]
        b = self.S[h['vid']][s:e]
        if raw or (self.cs and np.iscomplexobj(b)):
            return b
        return b.real

    @staticmethod
    def np_idx(idx):
        if idx is None:
            return slice(None)
        if idx[0] == 'r':
            return slice(idx[1], idx[2])
        if idx[0] == 's':
            return slice(idx[1], idx[2], idx[3])
        if idx[0] == 'i':
            return np.array([idx[1]], dtype=int)
        return np.array(idx[1], dtype=int)

    @staticmethod
    def raw_idx(p):
        return Shadow.np_idx(p['_idx'] if '_idx' in p else p['idx'])

    @staticmethod
    def apply(view, idx, f, val):
        if f == 'set':
            view[idx] = val
        elif f == 'add':
            view[idx] += val
        elif f == 'sub':
            view[idx] -= val
        else:
            view[idx] *= val

    def run(self, p):
        """Execute one primitive; return its output (wire form) or None."""
        o = p['o']
        try:
            if o == 'arith':
                src = p['src']
                if 'vals' in src:
                    val = dec_np(src['vals'])
                elif 'scal' in src:
                    c = dec(src['scal'])
                    c = complex(float(c[0]), float(c[1])) if c[1] != 0 else float(c[0])
                    val = c * self.view(src['vec'])
                else:
                    val = self.view(src['vec'])
                self.apply(self.view(p['t'], p['raw']), self.raw_idx(p), p['f'], val)
                return None
            if o == 'named':
                v = self.var_view(p['t'], p['name'], p['raw'])
                self.apply(v, self.raw_idx(p), p['f'], dec_np(p['vals']))
                return None
            if o == 'selset':
                # Vector.set_var as documented: NumPy item assignment on the shaped variable, a
                # value with the right number of entries being reshaped to the selection
                op = p['_op']
                a = self.var_view(p['t'], p['name'], True).reshape(tuple(p['_shape']))
                I = nd_index(op)
                value = dec_np(op['vals']).reshape(tuple(op['vshape']))
                try:
                    a[I] = value
                except Exception:
                    try:
                        a[I] = value.reshape(a[I].shape)
                    except Exception:
                        return {'err': 'shape'}
                return None
            if o == 'iop':
                tmp = self.var_view(p['t'], p['name'])
                self.apply(tmp, slice(None), p['f'], dec_np(p['vals']))
                self.var_view(p['t'], p['name'], True)[:] = tmp
                return None
            if o == 'get':
                return {'v': enc_arr(self.var_view(p['t'], p['name']))}
            if o == 'all':
                return {'v': enc_arr(self.view(p['t']))}
            if o == 'dot':
                return {'s': enc(complex(np.dot(self.view(p['t']), self.view(p['s']))))}
            if o == 'norm2':
                return {'norm': float(np.linalg.norm(self.view(p['t'])))}
            if o == 'cs':
                self.cs = p['b']
                return None
            if o == 'scale':
                h = self.ctx.handles[p['t']]
                kind, lin, sys = h['key']
                sc = self.scal[kind]
                if sc is None:
                    return {'err': 'noscaling'}
                vid, off, n = self.geom(p['t'])
                if off is None:
                    return None
                own_s, own_a = sc['nl' if lin == 0 else 'ln']
                if p['rev']:
                    forward, (s, a) = (not p['norm']), (own_s, own_a)
                else:
                    forward = p['norm']
                    s, a = (sc['nl'][0], None) if h['sref'] else (own_s, own_a)
                s = s[off:off + n]
                a = None if a is None else a[off:off + n]
                d = self.view(p['t'])
                if forward:
                    if a is not None:
                        d -= a
                    d /= s
                else:
                    d *= s
                    if a is not None:
                        d += a
                return None
        except KeyError:
            return {'err': 'name'}
        except IndexError:
            return {'err': 'index'}
        except ValueError:
            return {'err': 'shape'}
        raise Infra('oracle: unknown primitive %r' % o)

    def snap(self):
        return [enc_arr(a) for a in self.S]


# ------------------------------------------------------------------------------------------------
# the real code

def _mk_components():
    import openmdao.api as om

    def add_all(self):
        for v in self._omv['ins']:
            self.add_input(v['name'], shape=tuple(v['shape']), units=v['units'])
        for v in self._omv['outs']:
            kw = {}
            for k in ('ref', 'ref0', 'res_ref'):
                x = v[k]
                if x is None or (k == 'res_ref' and v.get('res_ref_default')):
                    continue
                if isinstance(x, list):
                    kw[k] = np.array([float(unrat(t)) for t in x]).reshape(tuple(v['shape']))
                else:
                    kw[k] = float(unrat(x))
            self.add_output(v['name'], shape=tuple(v['shape']), units=v['units'], **kw)

    class VExpl(om.ExplicitComponent):
        def __init__(self, c):
            super().__init__()
            self._omv = c

        def setup(self):
            add_all(self)

    class VImpl(om.ImplicitComponent):
        def __init__(self, c):
            super().__init__()
            self._omv = c

        def setup(self):
            add_all(self)

    return VExpl, VImpl


def build_problem(spec):
    import openmdao.api as om
    _units_once()
    VExpl, VImpl = _mk_components()
    p = om.Problem()
    groups = {'': p.model}
    for g in spec['groups']:
        groups[g] = p.model.add_subsystem(g, om.Group())
    for c in spec['comps']:
        parent, _, cname = c['path'].rpartition('.')
        groups[parent].add_subsystem(cname, (VImpl if c['implicit'] else VExpl)(c))
    for owner, src, tgt in spec['conns']:
        cut = len(owner) + 1 if owner else 0
        groups[owner].connect(src[cut:], tgt[cut:])
    if spec['newton'] is not None:
        grp = groups[spec['newton']]
        grp.nonlinear_solver = om.NewtonSolver(solve_subsystems=False)
        grp.linear_solver = om.DirectSolver()
    p.setup(force_alloc_complex=spec['force_cx'])
    p.final_setup()
    return p


def err_kind(e):
    if isinstance(e, KeyError):
        return 'name'
    if isinstance(e, IndexError):
        return 'index'
    if isinstance(e, ValueError):
        return 'shape'
    if isinstance(e, TypeError) and 'NoneType' in str(e):
        return 'noscaling'
    return type(e).__name__


class Real:
    def __init__(self, case):
        self.case = case
        self.spec = case['spec']
        self.p = build_problem(self.spec)
        self.cs = False
        self.open_cm = []
        self.sysobj = {'': self.p.model}
        for s in systems(self.spec)[1:]:
            obj = self.p.model
            for part in s.split('.'):
                obj = getattr(obj, part)        # subsystems are attributes of their group
            self.sysobj[s] = obj

    def vec(self, v):
        return self.sysobj[v[2]]._vectors[v[0]][LIN[int(v[1])]]

    def roots(self):
        return [self.vec([k, l, '']) for k in KINDS for l in (0, 1)]

    def observe(self, vec):
        """both parts of the storage through the public API: asarray() under complex-step mode"""
        if vec._alloc_complex:
            vec.set_complex_step_mode(True)
            a = vec.asarray(copy=True)
            vec.set_complex_step_mode(self.cs)
            return enc_arr(a)
        return enc_arr(vec.asarray(copy=True))

    def snap(self):
        return [self.observe(v) for v in self.roots()]

    @staticmethod
    def pyval(vals, scalar, shape=None):
        a = dec_np(vals)
        if scalar and a.size == 1:
            return a[0].item()
        if shape is not None:
            return a.reshape(shape)
        return a

    @staticmethod
    def pyidx(idx):
        if idx is None:
            return None
        return py_index(idx)

    def do(self, op):
        """Execute one harness step on the real vectors; return its output."""
        api = op['api']
        if api == 'cs':
            self.p.set_complex_step_mode(op['b'])
            self.cs = op['b']
            return None
        if api == 'ctx_enter':
            sysobj = self.sysobj[op['sys']]
            if op['which'] == 'scaled_all':
                if not hasattr(sysobj, '_scaled_context_all'):
                    self.open_cm.append(None)
                    return {'skipped': True}
                cm = sysobj._scaled_context_all()
            else:
                if not hasattr(sysobj, '_unscaled_context'):
                    self.open_cm.append(None)
                    return {'skipped': True}
                outs = [self.vec(['output', 0, op['sys']])]
                res = [self.vec(['residual', 0, op['sys']])]
                if op['lin_too']:
                    outs.append(self.vec(['output', 1, op['sys']]))
                    res.append(self.vec(['residual', 1, op['sys']]))
                cm = sysobj._unscaled_context(outputs=outs, residuals=res)
            cm.__enter__()
            self.open_cm.append(cm)
            return None
        if api == 'ctx_exit':
            cm = self.open_cm.pop()
            if cm is None:
                return {'skipped': True}
            cm.__exit__(None, None, None)
            return None
        return self.do1(op)

    def do1(self, op):
        try:
            return self.do2(op)
        except Infra:
            raise
        except Exception as e:        # exceptions of the real code are results
            return {'err': err_kind(e), 'msg': str(e)[:160]}

    def do2(self, op):
        api = op['api']
        v = self.vec(op['v'])
        if api in ('set_val', 'iadd', 'isub', 'imul'):
            val = self.pyval(op['vals'], op['scalar'])
            m = getattr(v, api)
            if op['idx'] is None:
                m(val)
            else:
                m(val, self.pyidx(op['idx']))
            return None
        if api == 'op_arr':
            val = self.pyval(op['vals'], op['scalar'])
            if op['f'] == 'add':
                v += val
            elif op['f'] == 'sub':
                v -= val
            else:
                v *= val
            return None
        if api == 'op_vec':
            w = self.vec(op['w'])
            if op['f'] == 'add':
                v += w
            elif op['f'] == 'sub':
                v -= w
            else:
                v *= w
            return None
        if api == 'set_vec':
            v.set_vec(self.vec(op['w']))
            return None
        if api == 'add_scal_vec':
            c = self.pyval([op['c']], True)
            v.add_scal_vec(c, self.vec(op['w']))
            return None
        if api == 'dot':
            return {'s': enc(complex(v.dot(self.vec(op['w']))))}
        if api == 'norm':
            return {'norm': float(v.get_norm())}
        if api == 'get':
            if op['how'] == 'getitem':
                r = v[op['name']]
            else:
                absn = (op['v'][2] + '.' + op['name']) if op['v'][2] else op['name']
                r = v.get_val(absn, flat=False)
            return {'v': enc_arr(r), 'shape': list(np.shape(r))}
        if api == 'set_var':
            shape = None
            if op.get('shaped'):
                shape = tuple(self.case_var(op)['shape'])
            val = self.pyval(op['vals'], op['scalar'], shape)
            if op['how'] == 'setitem':
                v[op['name']] = val
            elif op['idx'] is None and not op['flat']:
                v.set_var(op['name'], val)
            elif op['idx'] is None:
                v.set_var(op['name'], val, flat=True)
            else:
                v.set_var(op['name'], val, self.pyidx(op['idx']), flat=op['flat'])
            return None
        if api == 'set_var_nd':
            value = dec_np(op['vals']).reshape(tuple(op['vshape']))
            if op['vshape'] == [] and op.get('pyscalar'):
                value = value.item()
            v.set_var(op['name'], value, nd_index(op))
            return None
        if api == 'abs_set_val':
            if not hasattr(v, '_abs_set_val'):
                return {'skipped': True}
            shape = None
            if op.get('shaped'):
                shape = tuple(SpecInfo(self.spec).var[op['name']]['shape'])
            val = self.pyval(op['vals'], op['scalar'], shape)
            if op['idx'] is None:
                v._abs_set_val(op['name'], val)
            else:
                v._abs_set_val(op['name'], val, self.pyidx(op['idx']))
            return None
        if api == 'iop':
            val = self.pyval(op['vals'], op['scalar'],
                             None if len(op['vals']) == 1 else tuple(self.case_var(op)['shape']))
            if op['f'] == 'add':
                v[op['name']] += val
            elif op['f'] == 'sub':
                v[op['name']] -= val
            else:
                v[op['name']] *= val
            return None
        if api == 'set_vals':
            info = SpecInfo(self.spec)
            names = [op['v'][2] + '.' + n if op['v'][2] else n for n in v.keys()]
            vals = []
            for n in names:
                if n not in op['by_name']:
                    raise Infra('set_vals: no value for %s' % n)
                vals.append(dec_np(op['by_name'][n]).reshape(info.var[n]['shape']))
            v.set_vals(vals)
            return None
        if api == 'add_to_slice':
            v.add_to_slice(slice(op['a'], op['b']), dec_np(op['vals']))
            return None
        if api == 'get_slice':
            return {'v': enc_arr(v.get_slice(slice(op['a'], op['b'])))}
        if api == 'scale':
            if op['norm']:
                v.scale_to_norm(op['mode'])
            else:
                v.scale_to_phys(op['mode'])
            return None
        raise Infra('unknown api %r' % api)

    def case_var(self, op):
        info = SpecInfo(self.spec)
        absn = (op['v'][2] + '.' + op['name']) if op['v'][2] else op['name']
        return info.var[absn]


def run_real(case):
    warnings.simplefilter('ignore')
    spec = case['spec']
    info = SpecInfo(spec)
    try:
        real = Real(case)
    except Exception as e:
        raise Infra('cannot build the generated Problem: %s: %s' % (type(e).__name__, e))
    res = {'layout': {}, 'ranges': {}, 'srefs': {}, 'auto': {}, 'lens': {}, 'steps': []}
    # name order and ranges as the public API shows them (keys / get_range), for every system
    for kind in KINDS:
        res['layout'][kind] = {}
        res['ranges'][kind] = {}
        for sys in systems(spec):
            v = real.vec([kind, 0, sys])
            pre = sys + '.' if sys else ''
            names = [pre + n for n in v.keys()]
            res['layout'][kind][sys] = names
            res['ranges'][kind][sys] = [[n] + [int(x) for x in v.get_range(n)] for n in names]
            for lin in (0, 1):
                # len() of every vector object; the oracle compares it with the declared sizes
                res['lens']['%s|%d|%s' % (kind, lin, sys)] = len(real.vec([kind, lin, sys]))
            for lin in (0, 1):
                w = real.vec([kind, lin, sys])
                res['srefs']['%s|%d|%s' % (kind, lin, sys)] = bool(getattr(w, '_has_solver_ref', False))
                if bool(w._alloc_complex) != info.alloc(lin):
                    raise Infra('harness alloc bookkeeping: %s %s %s' % (kind, lin, sys))
    # shapes of the _auto_ivc outputs (not part of the generated spec) as the vector reports them
    rootout = real.vec(['output', 0, ''])
    for n in res['layout']['output']['']:
        if n.startswith('_auto_ivc.'):
            res['auto'][n] = [int(x) for x in rootout.get_info(n).shape]
    res['init'] = real.snap()
    prev = res['init']
    for op in case['ops']:
        out = real.do(op)
        snap = real.snap()
        res['steps'].append({'out': out,
                             'snap': [s if s != q else None for s, q in zip(snap, prev)]})
        prev = snap
    return res


# ------------------------------------------------------------------------------------------------

class C33(Property):
    pid = 'C33'
    workers = 1
    required_theorems = [
        'C33_ops_pointwise', 'C33_ops_pointwise_nodup', 'C33_step_arith', 'C33_step_frame',
        'C33_run_shape', 'C33_cell_formulas',
        'C33_views_tile', 'C33_views_disjoint', 'C33_views_alias', 'C33_set_var_sel',
        'C33_named_write_local', 'C33_named_other_unchanged',
        'C33_subvec_views_agree', 'C33_subvec_root_agree', 'C33_subvec_root_agree_step',
        'C33_subvec_refines',
        'C33_scale_cell_roundtrip', 'C33_scale_roundtrip', 'C33_scale_roundtrip_needs_nonzero',
        'C33_input_scaling_consistent', 'C33_linear_input_scaling', 'C33_shared_scaler_unchanged',
        'C33_shared_scaler_needs_unit_a1',
        'C33_dot_comm', 'C33_dot_add_scal_vec', 'C33_norm2_eq_dot_self']
    rule = ("cases: a random 2-level Problem (1-2 groups, 2-6 explicit/implicit components with 0-2 "
            "inputs and 0-3 outputs of shapes (), (k,), (a,b), (0,); ref/ref0/res_ref scalar or array "
            "with power-of-two ref-ref0; dyadic custom units on connections; optional Newton solver so "
            "that linear vectors are complex; force_alloc_complex on/off) and a history of 20-60 API "
            "calls on its real root and sub-system DefaultVectors. Non-trivial: the history changes "
            "data through a sub-system vector, a named view or a scaling call, on a root vector with "
            "at least two variables; distinct by canonical case encoding. The first ten histories of a "
            "run start with five set_var calls using index arrays and a same-size value of another shape "
            "(the reshape fallback).")
    assumptions = [
        "data are dyadic rationals and every scaler is a power of two; a history is compared only "
        "while all values stay multiples of 2^-20 below 2^20 (operands of products below 2^6), where "
        "IEEE double arithmetic is exact; the rest of such a history is not compared (counted as "
        "'truncated_inexact')",
        "get_norm is compared against sqrt of the exact sum of squares with relative tolerance 4e-16",
        "NumPy's own index and broadcasting rules are not re-proved here (C05): negative entries and "
        "general slices of 1-D indices are normalised, and for set_var with flat=False an N-D index "
        "(ints, slices, index arrays, tuples mixing them) is resolved by NumPy to flat positions and, "
        "when the value is directly assignable, to the broadcast values, before the model sees them; "
        "what the model decides is where they land in the vector, the reshape fallback and the error "
        "cases. The direct oracle performs the assignment itself with plain NumPy on its own copy. "
        "N-D index arrays in set_var are duplicate-free",
        "_has_solver_ref of a vector object and the order of names are read from the real vectors",
    ]
    tolerance = {'get_norm': 4e-16}
    level_text = (
        "The storage/view layer of DefaultVector is modelled in Lean as one flat list of (re, im) "
        "cells per root vector, variables as consecutive ranges, sub-system vectors as slices, and "
        "every API call as a gather/compute/scatter update. Proved for all layouts, values and "
        "histories: each call changes exactly the addressed cells by the NumPy formula and nothing "
        "else (other variables, other vectors, scaling arrays), named access through a sub-system "
        "vector and through the root address the same cells, scale_to_norm/scale_to_phys are mutual "
        "inverses in both orders and both modes whenever the scalers are non-zero (with a "
        "counterexample for a zero scaler), and the scaling arrays make a connected input's scaled "
        "value equal its source's scaled value. The model is tied to the real vectors of randomly "
        "generated Problems by exact differential runs, next to a plain-NumPy replay.")
    level_note = (
        "Trusted: Lean kernel + standard axioms; the Python harness; NumPy's indexing, broadcasting "
        "and view semantics (the model's gather/scatter, clipping and 1-D broadcasting stand for "
        "them and are compared with real NumPy on every case). Modelled, not verified: float "
        "rounding (cases are exact); OpenMDAO's setup code that orders variables and computes the "
        "scale factors (tied differentially: the model and the oracle compute the arrays from "
        "ref/ref0/res_ref/units and are compared with the behaviour of the real vectors); MPI.")
    technique = "Lean 4 proof (lists, field algebra, frame invariants) + exact differential correspondence"
    trusted_extra = [
        "NumPy basic/fancy indexing, broadcasting and view aliasing (modelled by Idx.positions, bcast, "
        "scatter; compared against real NumPy per case)",
        "openmdao.utils.units.unit_conversion for the dyadic custom units registered by the harness",
    ]

    # -- generation ----------------------------------------------------------------------------------
    def cases(self, rng, tier):
        n = 150 if tier == 'quick' else 2500
        for k in range(n):
            spec = gen_spec(rng)
            malformed = rng.random() < 0.2
            g = OpGen(rng, spec, malformed)
            # the first few histories start with index-array set_var calls that need the reshape
            # fallback
            ops = g.gen(rng.choice([20, 30, 40]) if tier == 'quick' else rng.choice([20, 40, 60]),
                        head_nd=5 if k < 10 else 0)
            yield {'spec': spec, 'ops': ops, 'malformed': malformed}

    def run_impl(self, case):
        return run_real(case)

    # -- oracle --------------------------------------------------------------------------------------
    def replay(self, case, impl):
        """NumPy replay; returns (list of per-step dicts, failure or None)."""
        sh = Shadow(case, impl)
        info = sh.info
        # 1. layout: ranges of root and sub-system vectors
        for kind in KINDS:
            for sys in systems(case['spec']):
                names = impl['layout'][kind][sys]
                root_names = impl['layout'][kind]['']
                exp_names = sorted(info.sys_vars[sys]['input' if kind == 'input' else 'output'])
                got = sorted(n for n in names if not n.startswith('_auto_ivc.'))
                if got != exp_names:
                    return None, {'what': 'vector does not hold the variables of its system',
                                  'kind': kind, 'sys': sys, 'got': got, 'expected': exp_names}
                for lin in (0, 1):
                    n_real = impl.get('lens', {}).get('%s|%d|%s' % (kind, lin, sys))
                    if n_real is not None and n_real != info.size(kind, sys):
                        return None, {'what': 'len(vector) is not the total size of its variables',
                                      'kind': kind, 'sys': sys, 'linear': lin, 'got': n_real,
                                      'expected': info.size(kind, sys)}
                if not names:
                    continue
                k0 = root_names.index(names[0])
                if root_names[k0:k0 + len(names)] != names:
                    return None, {'what': 'sub-system variables are not a contiguous run of the root '
                                  'vector in the same order', 'kind': kind, 'sys': sys}
                off = sh.ranges[kind][names[0]][0]
                for n, a, b in impl['ranges'][kind][sys]:
                    ea, eb = sh.ranges[kind][n]
                    if (off + a, off + b) != (ea, eb):
                        return None, {'what': 'get_range does not address the cumulative-size slice',
                                      'kind': kind, 'sys': sys, 'name': n, 'got': [a, b],
                                      'expected': [ea - off, eb - off]}
        # 2. history
        for vid, a in enumerate(impl['init']):
            sh.S[vid][:] = dec_np(a) if len(a) else 0
        cur = list(impl['init'])
        stats = {'steps': 0, 'truncated': False}
        for k, (op, st) in enumerate(zip(case['ops'], impl['steps'])):
            out = st['out']
            if isinstance(out, dict) and out.get('skipped'):
                continue
            before = sh.snap()
            if op['api'] == 'cs':
                # switching the mode must not change stored data
                pass
            prims = sh.ctx.prims(op)
            if not self.exact_guard(op, prims, sh, before):
                stats['truncated'] = True
                break
            outs = [sh.run(p) for p in prims]
            after = sh.snap()
            if not all(fp_ok(a, FPBITS) for a in after):
                stats['truncated'] = True
                break
            cur = [s if s is not None else c for s, c in zip(st['snap'], cur)]
            exp_out = self.step_output(op, outs)
            bad = self.cmp_out(op, out, exp_out, before, sh)
            if bad:
                return stats, {'what': bad, 'step': k, 'api': op['api'], 'op': op,
                               'expected_out': exp_out, 'got_out': out}
            for vid in range(6):
                if not same(cur[vid], after[vid]):
                    kind, lin = KINDS[vid // 2], vid % 2
                    pos = [i for i, (x, y) in enumerate(zip(cur[vid], after[vid]))
                           if dec(x) != dec(y)]
                    what = '%s: data of the %s %s root vector differ from the NumPy formula' % (
                        op['api'], LIN[lin], kind)
                    if op['api'] in ('scale', 'ctx_enter', 'ctx_exit'):
                        what = ('%s: scaled data of the %s %s vector differ from the documented '
                                'ref/ref0/res_ref/unit scaling' % (op['api'], LIN[lin], kind))
                    return stats, {'what': what, 'step': k, 'api': op['api'], 'op': op,
                                   'positions': pos[:10],
                                   'expected': [after[vid][i] for i in pos[:10]],
                                   'got': [cur[vid][i] for i in pos[:10]]}
            stats['steps'] += 1
        return stats, None

    @staticmethod
    def exact_guard(op, prims, sh, before):
        """values entering products must be small enough for exact double arithmetic"""
        for p in prims:
            if p['o'] == 'arith':
                src = p['src']
                if 'vals' in src and not fp_ok(src['vals'], MULBITS):
                    return False
                if 'scal' in src and not fp_ok([src['scal']], MULBITS):
                    return False
                if 'vec' in src and (p['f'] == 'mul'):
                    if not fp_ok(enc_arr(sh.base(src['vec'])), MULBITS):
                        return False
            if p['o'] in ('named', 'iop') and not fp_ok(p['vals'], MULBITS):
                return False
        return True

    @staticmethod
    def step_output(op, outs):
        api = op['api']
        if api == 'get_slice':
            return {'v': outs[0]['v'][op['a']:op['b']]}
        errs = [o for o in outs if isinstance(o, dict) and 'err' in o]
        if errs:
            return errs[0]
        real = [o for o in outs if o is not None]
        return real[0] if real else None

    def cmp_out(self, op, got, exp, before, sh):
        api = op['api']
        ge = got.get('err') if isinstance(got, dict) else None
        ee = exp.get('err') if isinstance(exp, dict) else None
        if ge or ee:
            if ge != ee:
                return '%s: real code %s, NumPy %s' % (
                    api, 'raised ' + ge if ge else 'succeeded', 'raises ' + ee if ee else 'succeeds')
            return None
        if api == 'dot':
            vid_ok = all(fp_ok(enc_arr(sh.base(sh.ctx.h(op[k]))), DOTBITS) for k in ('v', 'w'))
            if vid_ok and dec(got['s']) != dec(exp['s']):
                return 'dot differs from np.dot of the data'
            return None
        if api == 'norm':
            if fp_ok(enc_arr(sh.base(sh.ctx.h(op['v']))), DOTBITS):
                if not math.isclose(got['norm'], exp['norm'], rel_tol=4e-16, abs_tol=0.0):
                    return 'get_norm differs from np.linalg.norm of the data'
            return None
        if api in ('get', 'get_slice'):
            if not same(got['v'], exp['v']):
                return '%s does not return the data of the addressed slice' % api
            if api == 'get' and 'shape' in got:
                absn = (op['v'][2] + '.' + op['name']) if op['v'][2] else op['name']
                shape = list(sh.info.var[absn]['shape'])
                if got['shape'] != shape:
                    return 'named access returns shape %s, declared %s' % (got['shape'], shape)
            return None
        return None

    _cache = None

    def cached_replay(self, case, impl):
        if self._cache is None or self._cache[0] is not impl:
            self._cache = (impl, self.replay(case, impl))
        return self._cache[1]

    def oracle(self, case, impl):
        return self.cached_replay(case, impl)[1]

    def signature(self, case, impl, failure):
        op = failure.get('op') or {}
        v = op.get('v') or [None, None, None]
        return {'api': failure.get('api'), 'kind': v[0], 'linear': v[1],
                'subsystem': bool(v[2]) if v[2] is not None else None,
                'what': failure.get('what', '')[:60]}

    def nontrivial(self, case, impl):
        info = SpecInfo(case['spec'])
        for op in case['ops'][6:]:
            v = op.get('v')
            if op['api'] in ('scale', 'ctx_enter'):
                return True
            if v and (v[2] or 'name' in op) and op['api'] not in ('get', 'dot', 'norm', 'get_slice') \
                    and len(info.sys_vars['']['input' if v[0] == 'input' else 'output']) >= 2:
                return True
        return False

    def bucket(self, case, impl):
        info = SpecInfo(case['spec'])
        b = ['force_cx=%s' % case['spec']['force_cx'], 'ln_complex=%s' % info.ln_alloc,
             'groups=%d' % len(case['spec']['groups']), 'comps=%d' % len(case['spec']['comps']),
             'out_scaling=%s' % info.has_out_scaling, 'res_scaling=%s' % info.has_res_scaling,
             'in_scaling=%s' % info.has_in_scaling, 'unit_conv=%s' % info.units_differ,
             'malformed' if case.get('malformed') else 'wellformed']
        st = self.cached_replay(case, impl)[0] or {}
        if st.get('truncated'):
            b.append('truncated_inexact')
        cs = False
        for op, s in zip(case['ops'], impl['steps']):
            api = op['api']
            if api == 'cs':
                cs = op['b']
            lab = 'op=' + api
            b.append(lab)
            out = s['out']
            if isinstance(out, dict) and 'err' in out:
                b.append('err=' + out['err'])
            if isinstance(out, dict) and out.get('skipped'):
                b.append('skipped=' + api)
            v = op.get('v')
            if v:
                if v[2]:
                    b.append('on_subsystem_vec')
                if v[1]:
                    b.append('on_linear_vec')
                if cs:
                    b.append('under_cs')
            if api == 'set_var_nd':
                b.append('nd_index=' + ('(' if op['tuple'] else '') +
                         ','.join({'r': 'slice', 's': 'slice', 'l': 'array', 'i': 'int'}[c[0]]
                                  for c in op['I']) + (')' if op['tuple'] else ''))
                b.append('nd_value=' + op['vkind'])
            if api == 'scale':
                b.append('scale_%s_%s_%s' % ('norm' if op['norm'] else 'phys', op['mode'],
                                             'ln' if v[1] else 'nl'))
            idx = op.get('idx')
            if idx is not None:
                b.append('idx=' + {'r': 'slice', 's': 'gslice', 'l': 'list', 'i': 'int'}[idx[0]])
                if (idx[0] == 'l' and any(k < 0 for k in idx[1])) or (idx[0] == 'i' and idx[1] < 0):
                    b.append('idx_negative')
                if idx[0] == 'l' and len(set(idx[1])) < len(idx[1]):
                    b.append('idx_duplicates')
        if any(x for k in KINDS for x in impl['srefs'] if impl['srefs'][x]):
            b.append('has_solver_ref')
        if any(v['size'] == 0 for v in info.var.values()):
            b.append('zero_size_var')
        return b

    # -- model -------------------------------------------------------------------------------------
    def model_requests(self, case, impl):
        info = SpecInfo(case['spec'])
        ctx = Ctx(case, impl['layout'], impl['srefs'])
        steps = []
        for op, st in zip(case['ops'], impl['steps']):
            out = st['out']
            if isinstance(out, dict) and out.get('skipped'):
                steps.append([])
            else:
                steps.append(ctx.prims(op))
        kinds = []
        for ki, kind in enumerate(KINDS):
            vars_ = []
            for n in impl['layout'][kind]['']:
                if n in info.var:
                    vars_.append([n, list(info.var[n]['shape'])])
                else:
                    vars_.append([n, list(impl['auto'][n])])
            fac = []
            for n, (a0, a1, conv) in sorted(info.factors(kind).items()):
                fac.append([n, [rat(x) for x in a0], [rat(x) for x in a1],
                            None if conv is None else [rat(conv[0]), rat(conv[1])]])
            kinds.append({'isinput': kind == 'input', 'vars': vars_, 'factors': fac,
                          'scaling': info.has_scaling(kind), 'adder': info.has_adder(kind),
                          'outscaling': info.has_out_scaling,
                          'nl_alloc': info.nl_alloc, 'ln_alloc': info.ln_alloc,
                          'nl_data': impl['init'][2 * ki], 'ln_data': impl['init'][2 * ki + 1]})
        self._last_ctx = ctx
        return [{'op': 'run', 'cs': False, 'kinds': kinds,
                 'handles': [{'vid': h['vid'], 'chain': h['chain'], 'sref': h['sref']}
                             for h in ctx.handles],
                 'ops': steps, '_keys': [h['key'] for h in ctx.handles]}]

    def compare(self, case, impl, answers):
        a = answers[0]
        if not a.get('ok'):
            return 'model could not place a sub-system vector in its parent (%s)' % a.get('err')
        info = SpecInfo(case['spec'])
        ctx = Ctx(case, impl['layout'], impl['srefs'])
        for op, st in zip(case['ops'], impl['steps']):
            if not (isinstance(st['out'], dict) and st['out'].get('skipped')):
                ctx.prims(op)
        # layout: model offsets/views against get_range of the real vectors
        for h, mh in zip(ctx.handles, a['handles']):
            kind, lin, sys = h['key']
            names = impl['layout'][kind][sys]
            if not names:
                continue
            root = {n: (s, e) for n, s, e in impl['ranges'][kind]['']}
            for (n, s, e), (mn, ms, me) in zip(impl['ranges'][kind][sys], mh['views']):
                if n != mn or (s, e) != (ms, me) or root[n] != (mh['off'] + ms, mh['off'] + me):
                    return 'layout: model places %s of %s/%s at %s+[%d,%d), real vector at [%d,%d) ' \
                           '(root %s)' % (n, kind, sys, mh['off'], ms, me, s, e, root[n])
        cur = list(impl['init'])
        lim = 1 << FPBITS
        for k, (op, st, ms) in enumerate(zip(case['ops'], impl['steps'], a['steps'])):
            out = st['out']
            if isinstance(out, dict) and out.get('skipped'):
                continue
            prev = cur
            cur = [s if s is not None else c for s, c in zip(st['snap'], cur)]
            mdata = {int(v): d for v, d in ms['data']}
            # exactness guard on the model's exact values
            if not all(fp_ok(d, FPBITS) for d in mdata.values()):
                return None
            if not self.model_guard(op, prev, ctx):
                return None
            for vid in range(6):
                exp = mdata.get(vid, prev[vid])
                if not same(cur[vid], exp):
                    pos = [i for i, (x, y) in enumerate(zip(cur[vid], exp)) if dec(x) != dec(y)]
                    return 'step %d (%s): %s %s root data: model %s, implementation %s at %s' % (
                        k, op['api'], LIN[vid % 2], KINDS[vid // 2],
                        [exp[i] for i in pos[:6]], [cur[vid][i] for i in pos[:6]], pos[:6])
            d = self.cmp_model_out(op, out, ms['outs'], prev, ctx)
            if d:
                return 'step %d (%s): %s' % (k, op['api'], d)
        return None

    @staticmethod
    def model_guard(op, prev, ctx):
        """values entering products must be small enough for exact double arithmetic"""
        if 'vals' in op and not fp_ok(op['vals'], MULBITS):
            return False
        if 'by_name' in op and not all(fp_ok(v, MULBITS) for v in op['by_name'].values()):
            return False
        if 'c' in op and not fp_ok([op['c']], MULBITS):
            return False
        if op['api'] == 'op_vec' and op['f'] == 'mul':
            h = ctx.handles[ctx.h(op['w'])]
            if not fp_ok(prev[h['vid']], MULBITS):
                return False
        return True

    def cmp_model_out(self, op, got, mouts, prev, ctx):
        api = op['api']

        def munwrap(o):
            return o

        merr = [o['err'] for o in mouts if isinstance(o, dict) and 'err' in o]
        gerr = got.get('err') if isinstance(got, dict) else None
        if merr or gerr:
            if (merr[0] if merr else None) != gerr:
                return 'error branch: model %s, implementation %s' % (merr[:1], gerr)
            return None
        if api == 'dot':
            z = mouts[0]['s']
            if not fp_ok([z], 2 * FPBITS):
                return None
            small = True
            for key in ('v', 'w'):
                h = ctx.handles[ctx.h(op[key])]
                small = small and self.handle_small(h, prev, ctx)
            if small and dec(got['s']) != dec(z):
                return 'dot: model %s, implementation %s' % (z, got['s'])
            return None
        if api == 'norm':
            z = dec(mouts[0]['s'])[0]
            h = ctx.handles[ctx.h(op['v'])]
            if self.handle_small(h, prev, ctx):
                if not math.isclose(got['norm'], math.sqrt(float(z)), rel_tol=4e-16, abs_tol=0.0):
                    return 'get_norm: model sqrt(%s), implementation %r' % (z, got['norm'])
            return None
        if api == 'get':
            if not same(got['v'], mouts[0]['v']):
                return 'get: model %s, implementation %s' % (mouts[0]['v'], got['v'])
            return None
        if api == 'get_slice':
            if not same(got['v'], mouts[0]['v'][op['a']:op['b']]):
                return 'get_slice: model %s, implementation %s' % (
                    mouts[0]['v'][op['a']:op['b']], got['v'])
            return None
        return None

    @staticmethod
    def handle_small(h, snaps, ctx):
        """the handle's slice of the previous snapshot is small enough for an exact dot product"""
        return fp_ok(snaps[h['vid']], DOTBITS)


PROP = C33()
