"""C10 — bounds enforcement keeps Newton updates inside bounds and along the step.

Two case streams:

* kind 'kernel': `_enforce_bounds_vector/_scalar/_wall` of
  `openmdao/solvers/linesearch/backtracking.py` called directly on the real root `DefaultVector`s of a
  set-up Problem, with dyadic start/step/bound data in all bound patterns.
* kind 'newton': a real Problem whose model (or component) is solved by the real `NewtonSolver` with a
  real `BoundsEnforceLS` / `ArmijoGoldsteinLS` and each `bound_enforcement`; the implicit component
  declares bounds and `ref/ref0` of both signs.  The component itself records the physical output
  values at every `linearize` (start of a Newton iteration) and every `apply_nonlinear` (every point
  the line search evaluates); the line search's `_solve` is wrapped to mark its begin/end and to read
  the Newton step it was handed.

Direct oracle (no Lean model involved): declared physical bounds and the along-the-step conditions are
evaluated with exact `Fraction`s on the recorded iterates; for 'newton' the Newton step is recomputed
exactly from the case's residual definition.
"""
import warnings
from fractions import Fraction

import numpy as np

from common import Property, TieBroken, rat, unrat, rats

# The Lean model has both variants of `_setup_solvers`; this flag says which one /repo contains.
# False: the code as it is (scaled bounds not exchanged for ref < ref0).  Set to True once the
# proposed `fix:` (exchange the scaled bounds where ref < ref0) has been applied to /repo.
SWAP_WHEN_NEGATIVE = True
# Same for `_enforce_bounds_vector`: False = the code as it is (d_alpha is assumed, not forced, to be
# <= alpha); set to True once the proposed `fix:` (limit d_alpha to alpha) has been applied to /repo.
CLAMP_D_ALPHA = True

TOL = Fraction(1, 10 ** 12)          # model vs implementation (relative to max(1,|value|))
OTOL = Fraction(1, 10 ** 9)          # direct oracle (rounding of the real float computation)

Q4 = [Fraction(k, 4) for k in range(-24, 25)]
POW2 = [Fraction(1, 4), Fraction(1, 2), Fraction(1), Fraction(2), Fraction(4), Fraction(8)]
METHODS = ['vector', 'scalar', 'wall']


def F(x):
    return x if isinstance(x, Fraction) else unrat(x)


def ffl(x):
    """exact float of a dyadic Fraction"""
    return float(x)


def frat(x):
    x = float(x)
    if x != x:
        return 'nan'
    if x in (float('inf'), float('-inf')):
        return 'inf' if x > 0 else '-inf'
    return rat(x)


def close(a, b, tol=TOL):
    """a: implementation value ("n/d" or 'nan'/'inf'), b: model/expected Fraction."""
    if isinstance(a, str) and '/' not in a:
        return False
    a = F(a)
    return abs(a - b) <= tol * max(1, abs(b))


def vclose(av, bv, tol=TOL):
    return len(av) == len(bv) and all(close(a, b, tol) for a, b in zip(av, bv))


def vclose_abs(av, bv, tol):
    """av: implementation values ("n/d" strings), bv: Fractions, tol: absolute."""
    return len(av) == len(bv) and all('/' in a and abs(F(a) - b) <= tol for a, b in zip(av, bv))


def in_bounds(x, lo, hi, tol=0):
    return (lo is None or x >= lo - tol) and (hi is None or x <= hi + tol)


def along(y, s, d, alpha, tol=0):
    return (y - s) * d >= -tol and abs(y - s) <= alpha * abs(d) + tol


# ---------------------------------------------------------------------------------------------------
# generators

def gen_kernel(rng):
    n = rng.choice([1, 2, 2, 3, 3, 4, 5])
    method = rng.choice(METHODS)
    alpha = rng.choice([Fraction(1), Fraction(1), Fraction(1, 2), Fraction(2), Fraction(1, 4)])
    family = rng.choice(['pow2', 'pow2', 'dyadic'])
    malformed = rng.random() < 0.15
    s, du, lo, hi = [], [], [], []
    for _ in range(n):
        si = rng.choice(Q4)
        pat = rng.choice(['none', 'lower', 'upper', 'both', 'both'])
        margin = lambda: rng.choice([Fraction(0), Fraction(0), Fraction(1, 4), Fraction(1, 2),
                                     Fraction(1), Fraction(3, 2), Fraction(3), Fraction(6)])
        l = si - margin() if pat in ('lower', 'both') else None
        h = si + margin() if pat in ('upper', 'both') else None
        if malformed and rng.random() < 0.5:
            k = rng.choice(['out_lo', 'out_hi', 'crossed'])
            if k == 'out_lo' and l is not None:
                l = si + rng.choice([Fraction(1, 4), Fraction(1), Fraction(5, 2)])
                if h is not None and h < l:
                    h = l + 1
            elif k == 'out_hi' and h is not None:
                h = si - rng.choice([Fraction(1, 4), Fraction(1), Fraction(5, 2)])
                if l is not None and l > h:
                    l = h - 1
            elif k == 'crossed' and l is not None and h is not None:
                l, h = si + rng.choice([Fraction(1, 2), Fraction(2)]), si - rng.choice(
                    [Fraction(1, 2), Fraction(3)])
        if family == 'pow2':
            d = rng.choice([Fraction(0)] + POW2 + POW2) * rng.choice([1, -1])
        else:
            d = rng.choice(Q4 + [Fraction(0)] * 4 + [Fraction(k, 8) for k in (-7, -3, 3, 5, 11)])
        s.append(si)
        du.append(d)
        lo.append(l)
        hi.append(h)
    # the code's `None` array: only possible when no entry has that bound
    lower_none = all(l is None for l in lo) and rng.random() < 0.7
    upper_none = all(h is None for h in hi) and rng.random() < 0.7
    if lower_none and upper_none:
        # unreachable in the solver: `_enforce_bounds` returns early unless some output has a bound,
        # and then `_setup_solvers` has allocated at least one of the two arrays
        if rng.random() < 0.5:
            lower_none = False
        else:
            upper_none = False
    return {'kind': 'kernel', 'method': method, 'alpha': rat(alpha), 's': rats(s), 'du': rats(du),
            'lower': None if lower_none else [None if l is None else rat(l) for l in lo],
            'upper': None if upper_none else [None if h is None else rat(h) for h in hi]}


def gen_newton(rng):
    family = rng.choice(['diag', 'diag', 'dense', 'cubic'])
    nvars = rng.choice([1, 1, 2, 2, 3])
    neg_prob = rng.choice([0.0, 0.0, 0.5, 0.5, 1.0])
    vars_ = []
    total = 0
    for k in range(nvars):
        size = rng.choice([1, 1, 2, 3])
        if total + size > 5:
            size = 1
        total += size

        def shaped(gen, arr):
            if arr:
                return [gen() for _ in range(size)]
            v = gen()
            return [v] * size
        # scaling
        smode = rng.choice(['none', 'ref', 'ref_ref0', 'ref_ref0'])
        sarr = rng.random() < 0.35
        if smode == 'none':
            ref0 = [Fraction(0)] * size
            scale = [Fraction(1)] * size
        else:
            ref0 = shaped(lambda: rng.choice(Q4), sarr) if smode == 'ref_ref0' else [Fraction(0)] * size
            scale = shaped(lambda: rng.choice(POW2) * (-1 if rng.random() < neg_prob else 1), sarr)
        ref = [a + b for a, b in zip(ref0, scale)]
        # start and bounds (start within bounds, sometimes on a bound)
        x0 = [rng.choice(Q4) for _ in range(size)]
        pat = rng.choice(['none', 'lower', 'upper', 'both', 'both', 'both'])
        barr = rng.random() < 0.5
        margins = [Fraction(0), Fraction(1, 4), Fraction(1, 2), Fraction(1), Fraction(2), Fraction(4),
                   Fraction(8)]
        lower = upper = None
        if pat in ('lower', 'both'):
            if barr:
                lower = [x - rng.choice(margins) for x in x0]
            else:
                lower = [min(x0) - rng.choice(margins)] * size
        if pat in ('upper', 'both'):
            if barr:
                upper = [x + rng.choice(margins) for x in x0]
            else:
                upper = [max(x0) + rng.choice(margins)] * size
        vars_.append({'size': size, 'x0': rats(x0),
                      'lower': None if lower is None else rats(lower), 'lower_array': barr,
                      'upper': None if upper is None else rats(upper), 'upper_array': barr,
                      'ref': rats(ref), 'ref0': rats(ref0), 'scale_mode': smode, 'scale_array': sarr,
                      'res_ref': rat(rng.choice([1, 1, 1, 2, Fraction(1, 4)]))})
    n = total
    flat = _flatten(vars_)
    # residual definition
    sysd = {'family': family}
    if family == 'diag':
        A = [[Fraction(0)] * n for _ in range(n)]
        for i in range(n):
            A[i][i] = rng.choice([Fraction(1, 2), Fraction(1), Fraction(2), Fraction(-1)])
        target = []
        for i in range(n):
            r = rng.random()
            lo, hi = flat['lower'][i], flat['upper'][i]
            if r < 0.12 and lo is not None:
                target.append(lo)
            elif r < 0.24 and hi is not None:
                target.append(hi)
            elif r < 0.32:
                target.append(flat['x0'][i])
            else:
                target.append(flat['x0'][i] + rng.choice(Q4) * rng.choice([1, 1, 2]))
        b = [sum(A[i][j] * target[j] for j in range(n)) for i in range(n)]
        sysd.update({'A': [rats(r) for r in A], 'b': rats(b)})
    elif family == 'dense':
        A = [[Fraction(rng.choice([0, 0, 1, -1, 2, -2, 3])) for _ in range(n)] for _ in range(n)]
        for i in range(n):
            A[i][i] = (sum(abs(A[i][j]) for j in range(n) if j != i) + rng.choice([1, 2, 3])) * \
                rng.choice([1, 1, -1])
        target = [flat['x0'][i] + rng.choice(Q4) * rng.choice([1, 2]) for i in range(n)]
        b = [sum(A[i][j] * target[j] for j in range(n)) for i in range(n)]
        sysd.update({'A': [rats(r) for r in A], 'b': rats(b)})
    else:
        # r_i = x_i^3 + x_i + k_i x_{i-1} - b_i   (Jacobian lower bidiagonal, diagonal >= 1)
        kc = [Fraction(0)] + [rng.choice([Fraction(0), Fraction(1, 2), Fraction(-1), Fraction(2)])
                              for _ in range(n - 1)]
        b = [rng.choice(Q4) * rng.choice([1, 4, 16]) for _ in range(n)]
        sysd.update({'k': rats(kc), 'b': rats(b)})
    ls = rng.choice(['bchk', 'ag', 'ag'])
    lsd = {'ls': ls, 'method': rng.choice(METHODS)}
    if ls == 'ag':
        lsd.update({'alpha': rat(rng.choice([Fraction(1), Fraction(1), Fraction(1, 2), Fraction(2)])),
                    'rho': rat(rng.choice([Fraction(1, 2), Fraction(1, 2), Fraction(1, 4),
                                           Fraction(3, 4), Fraction(1), Fraction(0)])),
                    'maxiter': rng.choice([0, 1, 2, 3, 5]),
                    'c': rat(rng.choice([Fraction(1, 10), Fraction(1, 2), Fraction(1), Fraction(0),
                                         Fraction(1, 1024)])),
                    'ag_method': rng.choice(['Armijo', 'Armijo', 'Goldstein'])})
    return {'kind': 'newton', 'vars': vars_, 'system': sysd, 'linesearch': lsd,
            'newton_maxiter': rng.choice([1, 2, 3, 4]), 'on': rng.choice(['group', 'comp'])}


def _flatten(vars_):
    out = {'x0': [], 'lower': [], 'upper': [], 'ref': [], 'ref0': []}
    for v in vars_:
        for i in range(v['size']):
            out['x0'].append(F(v['x0'][i]))
            out['lower'].append(None if v['lower'] is None else F(v['lower'][i]))
            out['upper'].append(None if v['upper'] is None else F(v['upper'][i]))
            out['ref'].append(F(v['ref'][i]))
            out['ref0'].append(F(v['ref0'][i]))
    return out


# ---------------------------------------------------------------------------------------------------
# exact residual / Newton step of a 'newton' case (Fractions)

def _solve_exact(J, rhs):
    n = len(rhs)
    M = [row[:] + [rhs[i]] for i, row in enumerate(J)]
    for c in range(n):
        p = next((r for r in range(c, n) if M[r][c] != 0), None)
        if p is None:
            return None
        M[c], M[p] = M[p], M[c]
        for r in range(n):
            if r != c and M[r][c] != 0:
                f = M[r][c] / M[c][c]
                M[r] = [a - f * b for a, b in zip(M[r], M[c])]
    return [M[i][n] / M[i][i] for i in range(n)]


def exact_newton_step(sysd, x):
    n = len(x)
    if sysd['family'] in ('diag', 'dense'):
        A = [[F(a) for a in row] for row in sysd['A']]
        b = [F(v) for v in sysd['b']]
        r = [sum(A[i][j] * x[j] for j in range(n)) - b[i] for i in range(n)]
        J = A
    else:
        k = [F(v) for v in sysd['k']]
        b = [F(v) for v in sysd['b']]
        r = [x[i] ** 3 + x[i] + (k[i] * x[i - 1] if i else 0) - b[i] for i in range(n)]
        J = [[Fraction(0)] * n for _ in range(n)]
        for i in range(n):
            J[i][i] = 3 * x[i] ** 2 + 1
            if i:
                J[i][i - 1] = k[i]
    return _solve_exact(J, [-v for v in r])


# ---------------------------------------------------------------------------------------------------

class C10(Property):
    pid = 'C10'
    workers = 8
    tolerance = {'model_vs_impl': '1e-12 x largest magnitude on the compared trajectory (>= 1); vector '
                                  'enforcement: additionally x max |u|/|alpha du| over bounded entries',
                 'oracle': '1e-9 x max(1, |value|)'}
    required_theorems = ['C10_d_alpha_le_alpha', 'C10_clamp_noop', 'C10_vector_in_bounds',
                         'C10_scalar_in_bounds', 'C10_wall_in_bounds',
                         'C10_bounds_enforce_stays', 'C10_backtrack_stays', 'C10_along_step',
                         'C10_physical', 'C10_physical_partial', 'C10_physical_fixed',
                         'C10_physical_counterexample', 'C10_newton_update',
                         'C10_newton_update_fixed', 'C10_newton_update_partial',
                         'C10_newton_update_counterexample']
    rule = ("kernel cases: 1-5 entries, dyadic start within per-entry bounds (pattern none/lower/upper/"
            "both per entry, start on the bound included, whole bound array None when no entry has it), "
            "step zero / power of two / general dyadic, alpha in {1, 1/2, 2, 1/4}, the three kernels "
            "called on the real root DefaultVectors; 15% malformed (start outside / crossed bounds: "
            "model vs implementation only).  newton cases: real Problem, 1-3 output variables of size "
            "1-3 with bounds none/lower/upper/both (scalar or array), ref/ref0 none/ref/ref+ref0 "
            "(scalar or array, ref-ref0 = +-2^k), residual families diag / dense linear / coupled "
            "cubic, NewtonSolver (1-4 iterations) on the group or on the component with "
            "BoundsEnforceLS or ArmijoGoldsteinLS (alpha in {1,1/2,2}, rho in {0,1/4,1/2,3/4,1}, "
            "maxiter 0-5, Armijo/Goldstein) x bound_enforcement vector/scalar/wall.  Non-trivial: the "
            "enforcement was active (the plain step alpha*du leaves the bounds for some entry); "
            "distinct by canonical case encoding.")
    assumptions = ["data are dyadic rationals and ref-ref0 is a power of two, so the kernels compute "
                   "exactly in binary floating point except for the division by |du| (vector) and the "
                   "dense/cubic residual families; model and implementation are compared with relative "
                   "tolerance 1e-12, the direct oracle allows 1e-9",
                   "declared bound arrays contain no explicit +-inf entries (an absent bound is None)",
                   "one process, no MPI; DirectSolver computes the Newton step"]
    level_text = ("The bound scaling of LinesearchSolver._setup_solvers, the three enforcement kernels, "
                  "BoundsEnforceLS._solve and the ArmijoGoldsteinLS iterate sequence are modelled in Lean "
                  "and the property (every point a line search can return is within the declared physical "
                  "bounds, not against the Newton step and not beyond alpha times it) is proved for all "
                  "vectors, bound patterns, step lengths and contraction factors over any linearly ordered "
                  "field: for the code as it is under ref0 < ref, and for every scaling for the variant "
                  "that exchanges the scaled bounds when ref < ref0; a kernel-checked counterexample shows "
                  "the code as it is violates the property for ref < ref0 (known finding; a second known finding, "
                  "d_alpha > alpha by rounding in the vector kernel, exists only in floating point). The model is tied to the real "
                  "kernels (direct calls on DefaultVectors) and to real Newton runs by differential "
                  "comparison of every recorded iterate.")
    level_note = ("full for the three kernels, both line searches and one Newton update (all vectors, bound "
                  "patterns, scalings, step lengths; exact arithmetic). partial: IEEE rounding is modelled, not "
                  "verified (model vs implementation at 1e-12 relative; one known rounding defect of the vector "
                  "kernel is found by the direct oracle only); the Newton direction is taken from the run (the "
                  "oracle recomputes it exactly); which prefix of the ArmijoGoldstein iterates is evaluated is "
                  "decided by residual norms at run time; the outer Newton loop is covered as repeated "
                  "instances of the one-update theorem, checked at run time on every recorded iteration. "
                  "Trusted: Lean kernel + standard axioms; the Python harness.")
    technique = "Lean 4 proof over ordered fields + differential correspondence on real solver runs"
    trusted_extra = ["the entry-record representation of the four parallel arrays (u, du, lower, upper)",
                     "scipy LU (DirectSolver) for the Newton direction"]

    # -- tie: the anchored functions must still exist ---------------------------------------------
    def translate(self):
        try:
            from openmdao.solvers.linesearch import backtracking as bt
            from openmdao.solvers.nonlinear.newton import NewtonSolver  # noqa: F401
        except Exception as e:
            raise TieBroken('cannot import anchored modules: %s' % e)
        missing = [n for n in ('_enforce_bounds_vector', '_enforce_bounds_scalar',
                               '_enforce_bounds_wall', 'BoundsEnforceLS', 'ArmijoGoldsteinLS',
                               'LinesearchSolver') if not hasattr(bt, n)]
        if missing or not hasattr(bt.LinesearchSolver, '_setup_solvers'):
            raise TieBroken('anchored functions missing in backtracking.py: %s' % missing)
        return ['anchors present: backtracking._enforce_bounds_{vector,scalar,wall}, '
                'LinesearchSolver._setup_solvers, BoundsEnforceLS, ArmijoGoldsteinLS',
                'model variant compared: swapWhenNegative=%s clampDAlpha=%s' % (SWAP_WHEN_NEGATIVE,
                                                                                  CLAMP_D_ALPHA)]

    def cases(self, rng, tier):
        nk, nn = (800, 1200) if tier == 'quick' else (12000, 30000)
        out = []
        for _ in range(nk):
            out.append(gen_kernel(rng))
        for _ in range(nn):
            out.append(gen_newton(rng))
        return out

    # -- real code ----------------------------------------------------------------------------------
    _vec_cache = {}

    def setup(self, tier):
        # import OpenMDAO and build the kernel test vectors once, before worker processes are forked
        import openmdao.api  # noqa: F401
        for n in range(1, 6):
            self._vectors(n)
        # a case takes 1-3 ms; forked workers only pay off for the thorough tier
        self.workers = 1 if tier == 'quick' else 4

    def _vectors(self, n):
        import openmdao.api as om
        if n not in self._vec_cache:
            p = om.Problem()
            p.model.add_subsystem('ivc', om.IndepVarComp('x', np.zeros(n)))
            with warnings.catch_warnings():
                warnings.simplefilter('ignore')
                p.setup()
                p.final_setup()
            self._vec_cache[n] = p
        p = self._vec_cache[n]
        return p.model._outputs, p.model._doutputs

    def run_impl(self, case):
        try:
            with warnings.catch_warnings(), np.errstate(all='ignore'):
                warnings.simplefilter('ignore')
                if case['kind'] == 'kernel':
                    return self._run_kernel(case)
                return self._run_newton(case)
        except Exception as e:      # an exception of the real code is a result
            return {'error': type(e).__name__, 'msg': str(e)[:300]}

    def _run_kernel(self, case):
        from openmdao.solvers.linesearch import backtracking as bt
        fn = {'vector': bt._enforce_bounds_vector, 'scalar': bt._enforce_bounds_scalar,
              'wall': bt._enforce_bounds_wall}[case['method']]
        alpha = ffl(F(case['alpha']))
        s = np.array([ffl(F(v)) for v in case['s']])
        du = np.array([ffl(F(v)) for v in case['du']])
        n = len(s)

        def barr(b, fill):
            if b is None:
                return None
            return np.array([fill if v is None else ffl(F(v)) for v in b])
        lower = barr(case['lower'], -np.inf)
        upper = barr(case['upper'], np.inf)
        uvec, duvec = self._vectors(n)
        uvec.asarray()[:] = s
        duvec.asarray()[:] = du
        uvec.add_scal_vec(alpha, duvec)          # what both line searches do before the kernel
        stepped = uvec.asarray().copy()
        fn(uvec, duvec, alpha, lower, upper)
        return {'stepped': [frat(v) for v in stepped], 'u': [frat(v) for v in uvec.asarray()],
                'du': [frat(v) for v in duvec.asarray()]}

    def _run_newton(self, case):
        import openmdao.api as om
        vars_ = case['vars']
        sysd = case['system']
        names = ['y%d' % k for k in range(len(vars_))]
        sizes = [v['size'] for v in vars_]
        offs = np.concatenate([[0], np.cumsum(sizes)]).astype(int)
        n = int(offs[-1])
        log = []
        fam = sysd['family']
        if fam in ('diag', 'dense'):
            A = np.array([[ffl(F(a)) for a in row] for row in sysd['A']])
            b = np.array([ffl(F(v)) for v in sysd['b']])
        else:
            kc = np.array([ffl(F(v)) for v in sysd['k']])
            b = np.array([ffl(F(v)) for v in sysd['b']])

        def resid(x):
            if fam in ('diag', 'dense'):
                return A.dot(x) - b
            r = x ** 3 + x - b
            r[1:] += kc[1:] * x[:-1]
            return r

        def jac(x):
            if fam in ('diag', 'dense'):
                return A
            J = np.diag(3 * x ** 2 + 1)
            for i in range(1, n):
                J[i, i - 1] = kc[i]
            return J

        def arr_or_scalar(vals, is_arr):
            a = np.array([ffl(F(v)) for v in vals])
            return a if is_arr else float(a[0])

        class Comp(om.ImplicitComponent):
            def setup(self):
                for name, v in zip(names, vars_):
                    kw = {}
                    if v['lower'] is not None:
                        kw['lower'] = arr_or_scalar(v['lower'], v['lower_array'])
                    if v['upper'] is not None:
                        kw['upper'] = arr_or_scalar(v['upper'], v['upper_array'])
                    if v['scale_mode'] in ('ref', 'ref_ref0'):
                        kw['ref'] = arr_or_scalar(v['ref'], v['scale_array'])
                    if v['scale_mode'] == 'ref_ref0':
                        kw['ref0'] = arr_or_scalar(v['ref0'], v['scale_array'])
                    rr = ffl(F(v['res_ref']))
                    if rr != 1.0:
                        kw['res_ref'] = rr
                    self.add_output(name, val=np.array([ffl(F(x)) for x in v['x0']]), **kw)
                self.declare_partials('*', '*')

            def _flat(self, outputs):
                return np.concatenate([np.asarray(outputs[nm]).ravel() for nm in names])

            def apply_nonlinear(self, inputs, outputs, residuals):
                x = self._flat(outputs)
                log.append(('apply', x.copy()))
                r = resid(x)
                for k, nm in enumerate(names):
                    residuals[nm] = r[offs[k]:offs[k + 1]]

            def linearize(self, inputs, outputs, partials):
                x = self._flat(outputs)
                log.append(('lin', x.copy()))
                J = jac(x)
                for a, na in enumerate(names):
                    for c, nc in enumerate(names):
                        partials[na, nc] = J[offs[a]:offs[a + 1], offs[c]:offs[c + 1]]

        lsd = case['linesearch']
        if lsd['ls'] == 'bchk':
            ls = om.BoundsEnforceLS(bound_enforcement=lsd['method'])
        else:
            ls = om.ArmijoGoldsteinLS(bound_enforcement=lsd['method'], alpha=ffl(F(lsd['alpha'])),
                                      rho=ffl(F(lsd['rho'])), maxiter=lsd['maxiter'],
                                      c=ffl(F(lsd['c'])), method=lsd['ag_method'])
        ls.options['iprint'] = -1
        newton = om.NewtonSolver(solve_subsystems=False, maxiter=case['newton_maxiter'], iprint=-1,
                                 atol=1e-300, rtol=1e-300, err_on_non_converge=False)
        newton.linesearch = ls
        p = om.Problem()
        comp = p.model.add_subsystem('c', Comp())
        holder = p.model if case['on'] == 'group' else comp
        holder.nonlinear_solver = newton
        holder.linear_solver = om.DirectSolver()
        p.setup()
        p.final_setup()

        orig = ls._solve

        def wrapped():
            sysm = ls._system()
            log.append(('ls_begin', sysm._outputs.asarray().copy(), sysm._doutputs.asarray().copy()))
            try:
                orig()
            finally:
                log.append(('ls_end', sysm._outputs.asarray().copy(),
                            sysm._doutputs.asarray().copy()))
        ls._solve = wrapped
        err = None
        try:
            p.run_model()
        except Exception as e:
            err = {'error': type(e).__name__, 'msg': str(e)[:300]}
        # parse the log into Newton iterations
        iters = []
        cur = None
        last_lin = None
        for ev in log:
            if ev[0] == 'lin':
                last_lin = ev[1]
            elif ev[0] == 'ls_begin':
                cur = {'x_start': None if last_lin is None else [frat(v) for v in last_lin],
                       'u_start': [frat(v) for v in ev[1]], 'du': [frat(v) for v in ev[2]],
                       'evals': [], 'final': None, 'open': True}
                iters.append(cur)
            elif ev[0] == 'ls_end':
                cur['open'] = False
                cur['u_end'] = [frat(v) for v in ev[1]]
            elif ev[0] == 'apply' and cur is not None:
                if cur['open']:
                    cur['evals'].append([frat(v) for v in ev[1]])
                elif cur['final'] is None:
                    cur['final'] = [frat(v) for v in ev[1]]
        for it in iters:
            it.pop('open', None)
        res = {'iters': iters}
        if err:
            res.update(err)
        else:
            res['x_final'] = [frat(v) for nm in names for v in np.asarray(p.get_val('c.' + nm)).ravel()]
        return res

    # -- direct oracle --------------------------------------------------------------------------------
    def _kernel_pre(self, case):
        s = [F(v) for v in case['s']]
        n = len(s)
        lo = [None] * n if case['lower'] is None else [None if v is None else F(v) for v in case['lower']]
        hi = [None] * n if case['upper'] is None else [None if v is None else F(v) for v in case['upper']]
        ok = all(in_bounds(s[i], lo[i], hi[i]) for i in range(n))
        return s, [F(v) for v in case['du']], lo, hi, F(case['alpha']), ok

    def oracle(self, case, impl):
        if case['kind'] == 'kernel':
            s, du, lo, hi, alpha, pre = self._kernel_pre(case)
            if not pre:
                return None           # property assumes a start within bounds
            if 'error' in impl:
                return {'what': 'kernel raised %s' % impl['error'], 'check': 'error',
                        'msg': impl.get('msg')}
            try:
                u = [F(v) for v in impl['u']]
                d2 = [F(v) for v in impl['du']]
            except Exception:
                return {'what': 'kernel produced a non-finite value', 'check': 'nonfinite'}
            for i in range(len(s)):
                # the point itself and the points later contractions reach (u + (alpha_k - alpha) du')
                for t in (Fraction(0), Fraction(1, 2), Fraction(1)):
                    y = u[i] - t * alpha * d2[i]
                    if not in_bounds(y, lo[i], hi[i], OTOL * max(1, abs(y))):
                        return {'what': 'entry outside its bounds after %s enforcement' % case['method'],
                                'check': 'bounds', 'entry': i, 'backtrack_fraction': rat(t),
                                'value': rat(y), 'lower': None if lo[i] is None else rat(lo[i]),
                                'upper': None if hi[i] is None else rat(hi[i])}
                    if not along(y, s[i], du[i], alpha, OTOL * max(1, abs(y))):
                        return {'what': 'entry moved against or beyond its step after %s enforcement'
                                % case['method'], 'check': 'along', 'entry': i,
                                'backtrack_fraction': rat(t), 'value': rat(y), 'start': rat(s[i]),
                                'step': rat(du[i])}
            return None
        # newton
        flat = _flatten(case['vars'])
        n = len(flat['x0'])
        lsd = case['linesearch']
        alpha = F(lsd['alpha']) if lsd['ls'] == 'ag' else Fraction(1)
        for k, it in enumerate(impl.get('iters', [])):
            if it['x_start'] is None:
                continue
            try:
                x = [F(v) for v in it['x_start']]
            except Exception:
                continue
            if not all(in_bounds(x[i], flat['lower'][i], flat['upper'][i]) for i in range(n)):
                continue              # property assumes a start within bounds
            dx = exact_newton_step(case['system'], x)
            pts = list(it['evals']) + ([it['final']] if it['final'] is not None else [])
            for y_ in pts:
                try:
                    y = [F(v) for v in y_]
                except Exception:
                    return {'what': 'non-finite output during the line search', 'check': 'nonfinite',
                            'iteration': k}
                for i in range(n):
                    tol = OTOL * max(1, abs(y[i]), abs(x[i]))
                    if not in_bounds(y[i], flat['lower'][i], flat['upper'][i], tol):
                        return {'what': 'output outside its declared bounds after a Newton update',
                                'check': 'bounds', 'iteration': k, 'entry': i, 'value': rat(y[i]),
                                'lower': None if flat['lower'][i] is None else rat(flat['lower'][i]),
                                'upper': None if flat['upper'][i] is None else rat(flat['upper'][i]),
                                'start': rats(x)}
                    if dx is not None:
                        tol2 = OTOL * max(1, abs(y[i]), abs(x[i]), abs(dx[i])) * max(1, abs(dx[i]))
                        if not along(y[i], x[i], dx[i], alpha, tol2):
                            return {'what': 'output moved against or beyond its Newton step',
                                    'check': 'along', 'iteration': k, 'entry': i, 'value': rat(y[i]),
                                    'start': rat(x[i]), 'newton_step': rat(dx[i])}
        # an exception of the Newton run itself (linear solve, ...) is not a statement about bounds
        # enforcement: counted in the distribution ('impl_error'), iterations recorded before it are
        # still checked above
        return None

    def _neg_bounded(self, case):
        if case['kind'] != 'newton':
            return False
        flat = _flatten(case['vars'])
        return any(flat['ref'][i] < flat['ref0'][i] and
                   (flat['lower'][i] is not None or flat['upper'][i] is not None)
                   for i in range(len(flat['x0'])))

    def signature(self, case, impl, failure):
        sig = {'kind': case['kind'], 'ref_lt_ref0': self._neg_bounded(case),
               'check': failure.get('check'),
               'method': case['method'] if case['kind'] == 'kernel' else case['linesearch']['method'],
               'noise_step_on_bound': False}
        k = failure.get('iteration')
        if case['kind'] == 'newton' and k is not None and k < len(impl.get('iters', [])):
            it = impl['iters'][k]
            if all('/' in v for v in it['u_start'] + it['du']):
                sig['noise_step_on_bound'] = self._iter_vars(case, it)[1]
        return sig

    # -- evidence ---------------------------------------------------------------------------------
    def _active(self, case, impl):
        if 'iters' not in impl and 'stepped' not in impl:
            return False
        if case['kind'] == 'kernel':
            s, du, lo, hi, alpha, pre = self._kernel_pre(case)
            return any(not in_bounds(s[i] + alpha * du[i], lo[i], hi[i]) for i in range(len(s)))
        flat = _flatten(case['vars'])
        lsd = case['linesearch']
        alpha = F(lsd['alpha']) if lsd['ls'] == 'ag' else Fraction(1)
        n = len(flat['x0'])
        for it in impl['iters']:
            try:
                u = [F(v) for v in it['u_start']]
                d = [F(v) for v in it['du']]
            except Exception:
                continue
            for i in range(n):
                r = flat['ref'][i] - flat['ref0'][i]
                y = (u[i] + alpha * d[i]) * r + flat['ref0'][i]
                if not in_bounds(y, flat['lower'][i], flat['upper'][i]):
                    return True
        return False

    def nontrivial(self, case, impl):
        return self._active(case, impl)

    def bucket(self, case, impl):
        out = ['kind=' + case['kind'], 'impl_error' if 'error' in impl else 'impl_ok',
               'enforcement_active' if self._active(case, impl) else 'enforcement_idle']
        if case['kind'] == 'kernel':
            s, du, lo, hi, alpha, pre = self._kernel_pre(case)
            out += ['k.method=' + case['method'], 'k.alpha=' + case['alpha'],
                    'k.start_in_bounds' if pre else 'k.malformed',
                    'k.lower_None' if case['lower'] is None else 'k.lower_array',
                    'k.upper_None' if case['upper'] is None else 'k.upper_array']
            pats = set()
            for l, h in zip(lo, hi):
                pats.add('none' if l is None and h is None else 'lower' if h is None else
                         'upper' if l is None else 'both')
            out.append('k.mixed_patterns' if len(pats) > 1 else 'k.pattern=' + next(iter(pats)))
            if any(d == 0 for d in du):
                out.append('k.zero_step_entry')
            if any((l is not None and l == x) or (h is not None and h == x)
                   for x, l, h in zip(s, lo, hi)):
                out.append('k.start_on_bound')
            return out
        lsd = case['linesearch']
        flat = _flatten(case['vars'])
        out += ['n.ls=' + lsd['ls'], 'n.method=' + lsd['method'], 'n.on=' + case['on'],
                'n.family=' + case['system']['family'],
                'n.newton_iters=%d' % len(impl.get('iters', [])),
                'n.neg_scaled_bounded' if self._neg_bounded(case) else 'n.no_neg_scaled_bounded']
        if lsd['ls'] == 'ag':
            out += ['n.alpha=' + lsd['alpha'], 'n.rho=' + lsd['rho'], 'n.ag_maxiter=%d' % lsd['maxiter']]
            ne = max([len(it['evals']) for it in impl.get('iters', [])] or [0])
            out.append('n.ag_max_evals=%d' % ne)
        for v in case['vars']:
            pat = ('none' if v['lower'] is None and v['upper'] is None else 'lower' if v['upper'] is None
                   else 'upper' if v['lower'] is None else 'both')
            out.append('n.var_bounds=' + pat + ('_array' if v['lower_array'] and pat != 'none' else ''))
            out.append('n.var_scale=' + v['scale_mode'] + ('_array' if v['scale_array'] and
                                                          v['scale_mode'] != 'none' else ''))
        if any(r != r0 + 1 or r0 != 0 for r, r0 in zip(flat['ref'], flat['ref0'])):
            out.append('n.scaled')
        if any(self._iter_vars(case, it)[1] for it in self._usable_iters(impl)):
            out.append('n.noise_step_on_bound(not compared)')
        return sorted(set(out))

    # -- model ------------------------------------------------------------------------------------
    def model_requests(self, case, impl):
        if 'error' in impl and 'iters' not in impl:
            return []
        if case['kind'] == 'kernel':
            if any('/' not in v for v in impl['u'] + impl['du']):
                return []
            return [{'op': 'kernel', 'clamp': CLAMP_D_ALPHA, 'method': case['method'],
                     'alpha': case['alpha'],
                     'u': rats([F(a) + F(case['alpha']) * F(b) for a, b in zip(case['s'], case['du'])]),
                     'du': case['du'], 'lower': case['lower'], 'upper': case['upper']}]
        lsd = case['linesearch']
        reqs = []
        for it in self._usable_iters(impl):
            vs, _ = self._iter_vars(case, it)
            req = {'op': 'newton', 'swap': SWAP_WHEN_NEGATIVE, 'clamp': CLAMP_D_ALPHA, 'ls': lsd['ls'],
                   'method': lsd['method'], 'vars': vs}
            if lsd['ls'] == 'ag':
                req.update({'alpha': lsd['alpha'], 'rho': lsd['rho'], 'maxiter': lsd['maxiter']})
            reqs.append(req)
        return reqs

    @staticmethod
    def _usable_iters(impl):
        return [it for it in impl.get('iters', []) if it['x_start'] is not None and
                all('/' in v for v in it['x_start'] + it['u_start'] + it['du'])]

    def _iter_vars(self, case, it):
        """Model input of one Newton iteration: per entry the metadata, the start (the exact physical
        image of the solver-unit start the line search was handed) and the Newton step (the exact
        physical image of the step it was handed).  Also says whether the iteration is
        rounding-fragile: an entry that starts on a bound and whose step is non-zero but below the
        rounding of the start value - there `u + alpha*du` is `u` in floating point and the
        (discontinuous) vector kernel decides differently in exact arithmetic."""
        flat = _flatten(case['vars'])
        lsd = case['linesearch']
        alpha = F(lsd['alpha']) if lsd['ls'] == 'ag' else Fraction(1)
        vs = []
        fragile = False
        for i in range(len(flat['x0'])):
            r = flat['ref'][i] - flat['ref0'][i]
            u = F(it['u_start'][i])
            d = F(it['du'][i])
            vs.append({'ref': rat(flat['ref'][i]), 'ref0': rat(flat['ref0'][i]),
                       'lower': None if flat['lower'][i] is None else rat(flat['lower'][i]),
                       'upper': None if flat['upper'][i] is None else rat(flat['upper'][i]),
                       'x': rat(u * r + flat['ref0'][i]), 'dx': rat(d * r)})
            eps = Fraction(1, 10 ** 9) * max(1, abs(u))
            if d != 0 and abs(alpha * d) <= eps:
                for b in (flat['lower'][i], flat['upper'][i]):
                    if b is not None and abs((b - flat['ref0'][i]) / r - u) <= eps:
                        fragile = True
        return vs, fragile

    @staticmethod
    def _wall_tie(it, answer, alpha):
        """`_enforce_bounds_wall` zeroes the step of exactly those entries whose `change` is non-zero.
        When the stepped value lands within rounding of a point where `change` switches between zero
        and non-zero (typically: the Newton step ends exactly on a bound), floating point and exact
        arithmetic may decide differently, both within the property.  Such iterations are counted
        but not compared."""
        for i, (u0, d) in enumerate(zip(it['u_start'], it['du'])):
            u = F(u0) + alpha * F(d)
            lo = answer['lower'][i]
            hi = answer['upper'][i]
            lo = None if lo is None else F(lo)
            hi = None if hi is None else F(hi)
            eps = Fraction(1, 10 ** 9) * max(1, abs(u))

            def change(v):
                return ((max(v, lo) - v) if lo is not None else 0) + \
                    ((min(v, hi) - v) if hi is not None else 0)
            z = {abs(change(v)) <= eps * Fraction(1, 1000) for v in (u - eps, u, u + eps)}
            if len(z) > 1 or (change(u) != 0 and abs(change(u)) <= eps):
                return True
        return False

    def compare(self, case, impl, answers):
        if case['kind'] == 'kernel':
            a = answers[0]
            if 'error' in impl:
                return 'kernel raised %s; model: %s' % (impl['error'], a)
            if not a.get('ok'):
                return 'model rejected: %s' % a
            mu = [F(v) for v in a['u']]
            md = [F(v) for v in a['du']]
            if not vclose(impl['u'], mu) or not vclose(impl['du'], md):
                return 'kernel %s: implementation u=%s du=%s, model u=%s du=%s' % (
                    case['method'], impl['u'], impl['du'], a['u'], a['du'])
            return None
        its = self._usable_iters(impl)
        if len(its) != len(answers):
            return 'internal: %d iterations, %d answers' % (len(its), len(answers))
        for k, (it, a) in enumerate(zip(its, answers)):
            if not a.get('ok'):
                return 'model rejected iteration %d: %s' % (k, a)
            vs, fragile = self._iter_vars(case, it)
            if fragile:
                continue
            # the outputs the component saw at linearize are the physical image of the solver-unit
            # start handed to the line search
            if not vclose(it['x_start'], [F(v['x']) for v in vs]):
                return 'iteration %d: outputs at linearize %s are not the unscaled line-search start %s' % (
                    k, it['x_start'], [v['x'] for v in vs])
            seq = [[F(v['x']) for v in vs]] + [[F(v) for v in m] for m in a['iterates']]
            lsd = case['linesearch']
            alpha = F(lsd['alpha']) if lsd['ls'] == 'ag' else Fraction(1)
            if lsd['method'] == 'wall' and self._wall_tie(it, a, alpha):
                continue
            # rounding errors are relative to the largest value the trajectory passes through
            mag = max([1] + [abs(v) for p_ in seq for v in p_] +
                      [abs(alpha * F(v['dx'])) for v in vs])
            tol = TOL * mag
            if lsd['method'] == 'vector':
                # d_alpha = (bound - u)/|du| amplifies the rounding of u by |u|/|du|
                amp = Fraction(1)
                for i, (u0, d) in enumerate(zip(it['u_start'], it['du'])):
                    d = F(d)
                    if d != 0 and (a['lower'][i] is not None or a['upper'][i] is not None):
                        amp = max(amp, max(1, abs(F(u0))) / abs(alpha * d))
                tol *= amp
            pts = list(it['evals']) + ([it['final']] if it['final'] is not None else [])
            j = 0
            for y in pts:
                if any('/' not in v for v in y):
                    return 'iteration %d: non-finite implementation value %s' % (k, y)
                if vclose_abs(y, seq[j], tol):
                    continue
                if j + 1 < len(seq) and vclose_abs(y, seq[j + 1], tol):
                    j += 1
                    continue
                return ('iteration %d: implementation evaluated %s, model expects %s (position %d of '
                        'start+iterates %s)' % (k, y, rats(seq[j]), j, [rats(s_) for s_ in seq]))
            if pts and j == 0 and not vclose_abs(pts[-1], seq[1], tol):
                return 'iteration %d: line search returned the start point %s, model expects %s' % (
                    k, pts[-1], rats(seq[1]))
            if 'error' not in impl and it['final'] is None:
                return 'iteration %d: no evaluation after the line search' % k
        return None


PROP = C10()
