"""C34 — function-based and jax components compute their functions and exact partials.

Three independent evaluations of every generated case:

* the real OpenMDAO component (`ExplicitFuncComp`, `ImplicitFuncComp`, a generated subclass of
  `JaxExplicitComponent` / `JaxImplicitComponent`) built from *source text* of a random smooth
  function, observed through the public API (`get_val`; residuals after `run_apply_nonlinear`;
  partials as `compute_totals` from IndepVarComps for explicit components and as
  `check_partials()['J_fwd']` for implicit ones; `compute_totals` in fwd and rev mode);
* the direct oracle: the same source text executed by plain NumPy (values) and the harness's own
  forward-mode dual-number interpreter of the expression tree (exact derivatives; independent of
  jax, of OpenMDAO and of the Lean model);
* the Lean model (`drv_c34`) for the modelled subset of the expression language: argument binding,
  output unpacking, Jacobian assembly from jvp/vjp blocks incl. C-order reshapes, colored
  evaluation + `_expand_jac`, column reordering of the implicit component.
"""
import json
import linecache
import os
import warnings
from fractions import Fraction

import numpy as np

from common import Property, Infra, rat, unrat, canon, VERIF

TOL = 1e-9          # relative tolerance for exact (jax / cs / user) derivatives and values
TOL_FD = 2e-4       # finite-difference partials are only approximations (C12 owns their accuracy)
VMAX = 1e3          # bound on generated values / derivatives (keeps the relative tolerance honest)

PRIMS = ['sin', 'cos', 'exp', 'tanh', 'sqrt']


class Reject(Exception):
    """The generated function is not well-conditioned at the sampled point; draw another."""


# ================================================================================================
# expression trees (JSON lists):  ['var', n] ['lit', 'p/q'] ['neg', a] ['add'|'sub'|'mul'|'div', a, b]
# ['powi', a, n] ['prim', f, a] ['sum', a] ['dot', a, b] ['idx', a, [i, ..]] ['rev', a]
# outside the Lean model: ['slice', a, s, e] ['outer', a, b] ['matmul', a, b] ['T', a]
# ['sumax', a, axis] ['row', a, i] ['col', a, j]

def shape_of(t, sh):
    k = t[0]
    if k == 'var':
        return tuple(sh[t[1]])
    if k == 'lit':
        return ()
    if k in ('neg', 'rev'):
        return shape_of(t[1], sh)
    if k == 'powi':
        return shape_of(t[1], sh)
    if k == 'prim':
        return shape_of(t[2], sh)
    if k in ('add', 'sub', 'mul', 'div'):
        a, b = shape_of(t[1], sh), shape_of(t[2], sh)
        if a == ():
            return b
        if b == () or a == b:
            return a
        raise ValueError('shape mismatch %s %s' % (a, b))
    if k in ('sum', 'dot', 'idx'):
        return ()
    if k == 'slice':
        return (t[3] - t[2],)
    if k == 'outer':
        return shape_of(t[1], sh) + shape_of(t[2], sh)
    if k == 'matmul':
        a, b = shape_of(t[1], sh), shape_of(t[2], sh)
        return a[:-1] + b[1:]
    if k == 'T':
        return tuple(reversed(shape_of(t[1], sh)))
    if k == 'sumax':
        a = list(shape_of(t[1], sh))
        del a[t[2]]
        return tuple(a)
    if k == 'row':
        return shape_of(t[1], sh)[1:]
    if k == 'col':
        return shape_of(t[1], sh)[:1]
    raise ValueError(k)


def children(t):
    k = t[0]
    if k in ('var', 'lit'):
        return []
    if k in ('neg', 'rev', 'sum', 'T', 'powi', 'idx', 'slice', 'sumax', 'row', 'col'):
        return [t[1]]
    if k == 'prim':
        return [t[2]]
    return [t[1], t[2]]


def walk(t):
    yield t
    for c in children(t):
        for x in walk(c):
            yield x


def used_names(t):
    return {n[1] for n in walk(t) if n[0] == 'var'}


def _lit(q):
    f = Fraction(q)
    s = repr(float(f))
    return s if f >= 0 else '(%s)' % s


def render(t, np_='np'):
    """Python source of the expression (NumPy or jax.numpy spelling)."""
    k = t[0]
    r = lambda x: render(x, np_)
    if k == 'var':
        return t[1]
    if k == 'lit':
        return _lit(t[1])
    if k == 'neg':
        return '(-%s)' % r(t[1])
    if k in ('add', 'sub', 'mul', 'div'):
        return '(%s %s %s)' % (r(t[1]), {'add': '+', 'sub': '-', 'mul': '*', 'div': '/'}[k], r(t[2]))
    if k == 'powi':
        return '(%s)**%d' % (r(t[1]), t[2])
    if k == 'prim':
        return '%s.%s(%s)' % (np_, t[1], r(t[2]))
    if k == 'sum':
        return '%s.sum(%s)' % (np_, r(t[1]))
    if k == 'dot':
        return '%s.dot(%s, %s)' % (np_, r(t[1]), r(t[2]))
    if k == 'idx':
        return '(%s)[%s]' % (r(t[1]), ', '.join(str(i) for i in t[2]))
    if k == 'rev':
        return '(%s)[::-1]' % r(t[1])
    if k == 'slice':
        return '(%s)[%d:%d]' % (r(t[1]), t[2], t[3])
    if k == 'outer':
        return '%s.outer(%s, %s)' % (np_, r(t[1]), r(t[2]))
    if k == 'matmul':
        return '(%s @ %s)' % (r(t[1]), r(t[2]))
    if k == 'T':
        return '(%s).T' % r(t[1])
    if k == 'sumax':
        return '%s.sum(%s, axis=%d)' % (np_, r(t[1]), t[2])
    if k == 'row':
        return '(%s)[%d]' % (r(t[1]), t[2])
    if k == 'col':
        return '(%s)[:, %d]' % (r(t[1]), t[2])
    raise ValueError(k)


# ------------------------------------------------------------------------------------------------
# the harness's own forward-mode AD: value `v` and tangents `d` of shape v.shape + (N,)

class DV(object):
    __slots__ = ('v', 'd')

    def __init__(self, v, d):
        self.v = np.asarray(v, dtype=float)
        self.d = np.asarray(d, dtype=float)
        if self.d.shape[:-1] != self.v.shape:
            self.d = np.broadcast_to(self.d, self.v.shape + self.d.shape[-1:])
        if not (np.all(np.isfinite(self.v)) and np.all(np.isfinite(self.d))):
            raise Reject('non-finite')
        if self.v.size and (np.max(np.abs(self.v)) > VMAX or np.max(np.abs(self.d)) > VMAX):
            raise Reject('magnitude')


_P = {
    'sin': (np.sin, np.cos),
    'cos': (np.cos, lambda v: -np.sin(v)),
    'exp': (np.exp, np.exp),
    'tanh': (np.tanh, lambda v: 1.0 - np.tanh(v) ** 2),
    'sqrt': (np.sqrt, lambda v: 0.5 / np.sqrt(v)),
}


def ev(t, env, N):
    """Dual-number evaluation of a tree; env: name -> DV."""
    k = t[0]
    e = lambda x: ev(x, env, N)
    if k == 'var':
        return env[t[1]]
    if k == 'lit':
        return DV(float(Fraction(t[1])), np.zeros((N,)))
    if k == 'neg':
        a = e(t[1])
        return DV(-a.v, -a.d)
    if k in ('add', 'sub', 'mul', 'div'):
        a, b = e(t[1]), e(t[2])
        av, bv = a.v[..., None], b.v[..., None]
        if k == 'add':
            return DV(a.v + b.v, a.d + b.d)
        if k == 'sub':
            return DV(a.v - b.v, a.d - b.d)
        if k == 'mul':
            return DV(a.v * b.v, a.d * bv + av * b.d)
        if np.any(np.abs(b.v) < 0.2):
            raise Reject('div')
        return DV(a.v / b.v, (a.d * bv - av * b.d) / (bv * bv))
    if k == 'powi':
        a = e(t[1])
        n = t[2]
        return DV(a.v ** n, (n * a.v ** (n - 1))[..., None] * a.d)
    if k == 'prim':
        f, fp = _P[t[1]]
        a = e(t[2])
        if t[1] == 'sqrt' and np.any(a.v < 0.2):
            raise Reject('sqrt')
        if t[1] == 'exp' and np.any(a.v > 4.0):
            raise Reject('exp')
        return DV(f(a.v), np.asarray(fp(a.v))[..., None] * a.d)
    if k == 'sum':
        a = e(t[1])
        return DV(np.sum(a.v), a.d.reshape(-1, N).sum(axis=0))
    if k == 'dot':
        a, b = e(t[1]), e(t[2])
        return DV(np.dot(a.v, b.v), np.einsum('in,i->n', a.d, b.v) + np.einsum('i,in->n', a.v, b.d))
    if k == 'idx':
        a = e(t[1])
        ix = tuple(t[2])
        return DV(a.v[ix], a.d[ix])
    if k == 'rev':
        a = e(t[1])
        return DV(a.v[::-1], a.d[::-1])
    if k == 'slice':
        a = e(t[1])
        return DV(a.v[t[2]:t[3]], a.d[t[2]:t[3]])
    if k == 'outer':
        a, b = e(t[1]), e(t[2])
        return DV(np.outer(a.v, b.v),
                  a.d[:, None, :] * b.v[None, :, None] + a.v[:, None, None] * b.d[None, :, :])
    if k == 'matmul':
        a, b = e(t[1]), e(t[2])
        if b.v.ndim == 1:
            return DV(a.v @ b.v, np.einsum('ikn,k->in', a.d, b.v) + np.einsum('ik,kn->in', a.v, b.d))
        return DV(a.v @ b.v, np.einsum('ikn,kj->ijn', a.d, b.v) + np.einsum('ik,kjn->ijn', a.v, b.d))
    if k == 'T':
        a = e(t[1])
        nd = a.v.ndim
        return DV(a.v.T, a.d.transpose(list(reversed(range(nd))) + [nd]))
    if k == 'sumax':
        a = e(t[1])
        return DV(a.v.sum(axis=t[2]), a.d.sum(axis=t[2]))
    if k == 'row':
        a = e(t[1])
        return DV(a.v[t[2]], a.d[t[2]])
    if k == 'col':
        a = e(t[1])
        return DV(a.v[:, t[2]], a.d[:, t[2]])
    raise ValueError(k)


# ------------------------------------------------------------------------------------------------
# translation into the Lean model's expression language (C14 `Expr` over flattened arrays)

def to_lean(t, sh, varidx):
    """JSON of the C14 `Expr`, or None when the tree leaves the modelled subset."""
    k = t[0]
    rec = lambda x: to_lean(x, sh, varidx)
    if k == 'var':
        return {'k': 'var', 'v': varidx[t[1]]} if t[1] in varidx else None
    if k == 'lit':
        return {'k': 'lit', 'q': t[1]}
    if k == 'neg':
        a = rec(t[1])
        return None if a is None else {'k': 'neg', 'a': a}
    if k in ('add', 'sub', 'mul', 'div', 'dot'):
        a, b = rec(t[1]), rec(t[2])
        if a is None or b is None:
            return None
        if k == 'dot' and (len(shape_of(t[1], sh)) != 1 or len(shape_of(t[2], sh)) != 1):
            return None
        return {'k': k, 'a': a, 'b': b}
    if k == 'powi':
        a = rec(t[1])
        return None if a is None else {'k': 'powi', 'a': a, 'n': t[2]}
    if k == 'prim':
        a = rec(t[2])
        return None if a is None else {'k': 'prim', 'f': t[1], 'a': a}
    if k == 'sum':
        a = rec(t[1])
        if a is None or shape_of(t[1], sh) == ():
            return None
        return {'k': 'sum', 'a': a}
    if k == 'idx':
        a = rec(t[1])
        s = shape_of(t[1], sh)
        if a is None or s == ():
            return None
        return {'k': 'idx', 'a': a, 'i': int(np.ravel_multi_index(tuple(t[2]), s))}
    if k == 'rev':
        a = rec(t[1])
        if a is None or len(shape_of(t[1], sh)) != 1:
            return None
        return {'k': 'rev', 'a': a}
    return None


def is_rational(t):
    return all(n[0] != 'prim' for n in walk(t))


def substitute(t, temps):
    """Inline temporaries (name -> tree)."""
    if t[0] == 'var':
        return substitute(temps[t[1]], temps) if t[1] in temps else t
    if t[0] == 'lit':
        return t
    out = list(t)
    k = t[0]
    if k == 'prim':
        out[2] = substitute(t[2], temps)
    elif k in ('neg', 'rev', 'sum', 'T', 'powi', 'idx', 'slice', 'sumax', 'row', 'col'):
        out[1] = substitute(t[1], temps)
    else:
        out[1] = substitute(t[1], temps)
        out[2] = substitute(t[2], temps)
    return out


# ================================================================================================
# random functions

LITS = ['1/2', '2', '3/2', '3', '1/4', '-1', '-3/2', '5/4']


class ExprGen(object):
    def __init__(self, rng, shapes, modelled_only=False, rational=False):
        self.rng = rng
        self.sh = {n: tuple(s) for n, s in shapes.items()}
        self.base = sorted(set(self.sh.values()))
        self.mo = modelled_only
        self.rational = rational

    def vars_of(self, S):
        return sorted(n for n, s in self.sh.items() if s == S)

    def shapers(self, S):
        """Shape-changing constructors with operands among the variables' shapes."""
        B = self.base
        out = []
        if S == ():
            for T in B:
                if T != ():
                    out.append(('sum', T))
                    out.append(('idx', T))
                if len(T) == 1 and T[0] > 1:
                    out.append(('dot', T))
            return out
        if len(S) == 1:
            n = S[0]
            if S in B and n > 1:
                out.append(('rev', S))
            if self.mo:
                return out
            for T in B:
                if len(T) == 1 and T[0] > n:
                    out.append(('slice', T))
                if len(T) == 2 and T[1] == n:
                    out.append(('row', T))
                    out.append(('sumax0', T))
                if len(T) == 2 and T[0] == n:
                    out.append(('col', T))
                    out.append(('sumax1', T))
                    if (T[1],) in B:
                        out.append(('matvec', T))
            return out
        if self.mo:
            return out
        n, m = S
        if (n,) in B and (m,) in B:
            out.append(('outer', None))
        if (m, n) in B:
            out.append(('T', (m, n)))
        for T in B:
            if len(T) == 2 and T[0] == n and (T[1], m) in B:
                out.append(('matmat', T))
        return out

    def feasible(self, S):
        return S == () or S in self.base or bool(self.shapers(S))

    def gen(self, S, d):
        rng = self.rng
        leafs = self.vars_of(S)
        sh = self.shapers(S)
        if d <= 0 or rng.random() < 0.12:
            if leafs and (S != () or rng.random() < 0.8):
                return ['var', rng.choice(leafs)]
            if S == () and (not sh or rng.random() < 0.5):
                return ['lit', rng.choice(LITS)]
            return self.shaped(S, rng.choice(sh), 0)
        opts = ['bin'] * 5 + ['un'] * 3 + (['shape'] * 3 if sh else []) + ['pow']
        if not leafs and S != () and sh and rng.random() < 0.5:
            opts = ['shape']
        c = rng.choice(opts)
        if c == 'shape':
            return self.shaped(S, rng.choice(sh), d - 1)
        if c == 'pow':
            return ['powi', self.gen(S, d - 1), rng.choice([2, 2, 3])]
        if c == 'un':
            if self.rational:
                return ['neg', self.gen(S, d - 1)]
            f = rng.choice(PRIMS + ['neg'])
            a = self.gen(S, d - 1)
            if f == 'neg':
                return ['neg', a]
            if f == 'sqrt':
                return ['prim', 'sqrt', ['add', ['lit', '3/2'], ['mul', a, a]]]
            if f == 'exp':
                return ['prim', 'exp', ['mul', ['lit', '1/2'], ['prim', 'tanh', a]]
                        if rng.random() < 0.5 else ['mul', ['lit', '1/4'], a]]
            return ['prim', f, a]
        op = rng.choice(['add', 'sub', 'mul', 'mul', 'div'])
        form = rng.choice(['SS', 'SS', 'Ss', 'sS']) if S != () else 'SS'
        a = self.gen(S if form[0] == 'S' else (), d - 1)
        b = self.gen(S if form[1] == 'S' else (), d - 1)
        if op == 'div':
            den = ['add', ['lit', '3/2'], ['mul', b, b]]
            if not self.rational and rng.random() < 0.4:
                den = ['add', ['lit', '2'], ['prim', 'cos', b]]
            return ['div', a, den]
        return [op, a, b]

    def shaped(self, S, c, d):
        rng = self.rng
        kind, T = c
        g = lambda X: self.gen(X, d)
        if kind == 'sum':
            return ['sum', g(T)]
        if kind == 'idx':
            return ['idx', g(T), [rng.randrange(n) for n in T]]
        if kind == 'dot':
            return ['dot', g(T), g(T)]
        if kind == 'rev':
            return ['rev', g(T)]
        if kind == 'slice':
            s = rng.randrange(T[0] - S[0] + 1)
            return ['slice', g(T), s, s + S[0]]
        if kind == 'row':
            return ['row', g(T), rng.randrange(T[0])]
        if kind == 'col':
            return ['col', g(T), rng.randrange(T[1])]
        if kind == 'sumax0':
            return ['sumax', g(T), 0]
        if kind == 'sumax1':
            return ['sumax', g(T), 1]
        if kind == 'matvec':
            return ['matmul', g(T), g((T[1],))]
        if kind == 'outer':
            return ['outer', g((S[0],)), g((S[1],))]
        if kind == 'T':
            return ['T', g(T)]
        if kind == 'matmat':
            return ['matmul', g(T), g((T[1], S[1]))]
        raise ValueError(kind)


IN_SHAPES = [(), (), (1,), (2,), (3,), (3,), (4,), (2, 2), (2, 3), (3, 2), (1, 3), (5,)]


def _size(s):
    return int(np.prod(s, dtype=int)) if len(s) else 1


def _vals(rng, shape):
    n = _size(shape)
    return [rat(Fraction(rng.randrange(-12, 13), 8)) for _ in range(n)]


def gen_case(rng, kind, tier, force=None):
    """One random case (not yet screened by the oracle)."""
    force = force or {}
    modelled = force.get('modelled', rng.random() < 0.5)
    rational = force.get('rational', modelled and rng.random() < 0.5)
    nin = rng.choice([1, 2, 2, 3])
    nout = rng.choice([1, 1, 2, 2, 3])
    if kind in ('ifc', 'jic'):
        nout = rng.choice([1, 2, 2, 3])
    args = []
    for i in range(nin):
        args.append({'name': 'x%d' % i, 'role': 'in', 'shape': list(rng.choice(IN_SHAPES))})
    shapes = {a['name']: tuple(a['shape']) for a in args}
    implicit = kind in ('ifc', 'jic')
    rets = []
    if implicit:
        for k in range(nout):
            s = rng.choice([(), (2,), (3,), (2, 2), (1,), (3,)])
            nm = 'y%d' % k
            args.append({'name': nm, 'role': 'state', 'shape': list(s), 'resid': 'r%d' % k})
            shapes[nm] = s
    opts = {}
    if kind == 'efc' and rng.random() < 0.12:
        args.append({'name': 'kopt', 'role': 'opt', 'shape': []})
        shapes['kopt'] = ()
    g = ExprGen(rng, shapes, modelled_only=modelled, rational=rational)
    depth = rng.choice([1, 2, 2, 3]) if tier == 'quick' else rng.choice([1, 2, 3, 3, 4])
    temps = []
    if rng.random() < 0.35:
        ts = rng.choice([s for s in g.base] + [()])
        temps.append(['t0', g.gen(ts, max(1, depth - 1))])
        g.sh['t0'] = ts
        g.base = sorted(set(g.sh.values()))
    if implicit:
        for k in range(nout):
            s = tuple(args[nin + k]['shape'])
            nm = 'y%d' % k
            lead = ['mul', ['lit', rng.choice(['2', '3', '-2', '5/2'])], ['var', nm]]
            body = ['mul', ['lit', rng.choice(['1/4', '1/2'])], g.gen(s, depth)]
            rets.append({'name': nm, 'ret': 'r%d' % k, 'shape': list(s), 'expr': ['add', lead, body]})
    else:
        feas = [s for s in set(IN_SHAPES + [(2,), (3, 3), (2, 4), (3,)]) if g.feasible(s)]
        for k in range(nout):
            s = rng.choice(sorted(feas))
            rets.append({'name': 'f%d' % k, 'ret': 'f%d' % k, 'shape': list(s),
                         'expr': g.gen(s, depth)})
    # signature order
    if kind == 'ifc':
        ins = [a for a in args if a['role'] == 'in']
        sts = [a for a in args if a['role'] == 'state']
        if force.get('permute_states', rng.random() < 0.15) and len(sts) > 1:
            sts = sts[1:] + sts[:1]
        order = ['i'] * len(ins) + ['s'] * len(sts)
        rng.shuffle(order)
        ii, si = iter(ins), iter(sts)
        args = [next(ii) if o == 'i' else next(si) for o in order]
    elif kind == 'efc':
        rng.shuffle(args)
    vals = {a['name']: (_vals(rng, a['shape']) if a['role'] != 'opt' else [rng.choice(['2', '3/2', '-1'])])
            for a in args}
    # options
    if kind == 'efc':
        opts['method'] = rng.choice(['jax', 'jax', 'jax', 'cs', 'fd', 'user'])
        opts['jit'] = opts['method'] == 'jax' and rng.random() < 0.3
        opts['coloring'] = opts['method'] != 'user' and rng.random() < 0.4
        opts['decl'] = rng.choice(['star', 'star', 'pairs', 'sparse'])
        opts['named'] = rng.random() < 0.6
        opts['spec'] = rng.choice(['shape', 'val'])
    elif kind == 'ifc':
        opts['method'] = rng.choice(['jax', 'jax', 'jax', 'cs', 'fd', 'user'])
        opts['jit'] = opts['method'] == 'jax' and rng.random() < 0.3
        opts['coloring'] = opts['method'] != 'user' and rng.random() < 0.4
        opts['decl'] = rng.choice(['star', 'star', 'pairs'])
        opts['named'] = rng.random() < 0.6
        opts['solve_nl'] = rng.random() < 0.3
    else:
        opts['method'] = 'jax'
        opts['jit'] = rng.random() < 0.6
        opts['mf'] = rng.random() < 0.25
        opts['coloring'] = (not opts['mf']) and rng.random() < 0.45
        opts['decl'] = rng.choice(['infer', 'star', 'pairs', 'sparse'])
        opts['named'] = rng.random() < 0.6 if kind == 'jec' else False
        opts['static'] = kind == 'jec' and rng.random() < 0.15
    opts.update(force.get('opts', {}))
    if opts.get('static'):
        # multiply the first return by the static option value self.options['kopt'] (rendered later)
        vals['kopt'] = [rng.choice(['2', '3/2', '-1'])]
    opts['both_modes'] = rng.random() < 0.35
    opts['mode'] = rng.choice(['fwd', 'rev'])
    case_extra = {}
    if force.get('two_point'):
        # the first linearization (where sparsity / coloring are sampled, once) happens at a point
        # where some inputs / states are exactly 0.0; every later one at the generic point `vals`.
        # A coupling term state * g(inputs) (resp. input * g(other input)) makes partials that are
        # exactly zero at the first point and not at the second.
        opts['solve_nl'] = False
        dyn = [a for a in args if a['role'] != 'opt']
        for r in rets:
            if implicit:
                own = ['var', r['name']]
                oth = rng.choice([a for a in dyn if a['role'] == 'in'])
            else:
                cands = [a for a in dyn if tuple(a['shape']) == tuple(r['shape'])]
                if not cands:
                    continue
                a0 = rng.choice(cands)
                own = ['var', a0['name']]
                rest = [a for a in dyn if a['name'] != a0['name']]
                oth = rng.choice(rest or dyn)
            sc = ['var', oth['name']] if not oth['shape'] else \
                rng.choice([['sum', ['var', oth['name']]],
                            ['idx', ['var', oth['name']], [rng.randrange(n) for n in oth['shape']]]])
            r['expr'] = ['add', r['expr'], ['mul', ['lit', rng.choice(['1/2', '1/4', '-1/2'])],
                                           ['mul', own, sc]]]
        pattern = rng.choice(['states', 'states', 'all', 'some'])
        v0 = {}
        for a in dyn:
            v = list(vals[a['name']])
            zero_all = (pattern == 'all') or (pattern == 'states' and a['role'] == 'state') or \
                (pattern == 'states' and not implicit and rng.random() < 0.6)
            for i in range(len(v)):
                if zero_all or (pattern == 'some' and rng.random() < 0.5):
                    v[i] = '0/1'
            v0[a['name']] = v
        case_extra['vals0'] = v0
    if not opts.get('named', True) or kind == 'jic':
        # a bare name in a return statement is taken as the *name* of the return value
        for r in rets:
            if r['expr'][0] == 'var':
                r['expr'] = ['mul', ['lit', '1'], r['expr']]
    case = {'kind': kind, 'args': args, 'temps': temps, 'rets': rets, 'vals': vals, 'opts': opts}
    case.update(case_extra)
    return case


# ================================================================================================
# source text of the generated function / class

_SRC_N = [0]


def _register(src):
    _SRC_N[0] += 1
    fn = '<c34_generated_%d_%d>' % (os.getpid(), _SRC_N[0])
    linecache.cache[fn] = (len(src), None, src.splitlines(True), fn)
    return fn


def func_source(case, fname='func', np_='np', self_arg=False, arg_names=None):
    """`def func(args): temps; returns` as text."""
    names = arg_names if arg_names is not None else [a['name'] for a in case['args']]
    lines = ['def %s(%s):' % (fname, ', '.join((['self'] if self_arg else []) + names))]
    for n, t in case['temps']:
        lines.append('    %s = %s' % (n, render(t, np_)))
    named = case['opts'].get('named', True)
    rn = []
    for k, r in enumerate(case['rets']):
        e = render(r['expr'], np_)
        if case['opts'].get('static') and k == 0:
            e = "(self.options['kopt'] * %s)" % e
        if named:
            lines.append('    %s = %s' % (r['ret'], e))
            rn.append(r['ret'])
        else:
            rn.append(e)
    if len(rn) == 1:
        lines.append('    return %s' % rn[0])
    else:
        lines.append('    return %s' % ', '.join(rn))
    return '\n'.join(lines) + '\n'


def compile_func(src, name, extra=None):
    fn = _register(src)
    g = {'np': np}
    if extra:
        g.update(extra)
    exec(compile(src, fn, 'exec'), g)
    return g[name]


# ================================================================================================
# the direct oracle

def arg_arrays(case):
    out = {}
    for a in case['args']:
        v = np.array([float(unrat(x)) for x in case['vals'][a['name']]], dtype=float)
        out[a['name']] = v.reshape(tuple(a['shape'])) if a['shape'] else float(v[0])
    if case['opts'].get('static'):
        out['kopt'] = float(unrat(case['vals']['kopt'][0]))
    return out


def diff_args(case):
    """Differentiable arguments in signature order."""
    return [a for a in case['args'] if a['role'] != 'opt']


def oracle_eval(case):
    """Values and exact Jacobian by the harness's dual numbers.

    Returns (vals: name -> ndarray, jac: (ret name, arg name) -> 2-D array size_ret x size_arg)."""
    dargs = diff_args(case)
    N = sum(_size(a['shape']) for a in dargs)
    env = {}
    arrs = arg_arrays(case)
    off = 0
    for a in case['args']:
        v = np.asarray(arrs[a['name']], dtype=float)
        d = np.zeros(v.shape + (N,))
        if a['role'] != 'opt':
            n = _size(a['shape'])
            d.reshape(n, N)[np.arange(n), off + np.arange(n)] = 1.0
            off += n
        env[a['name']] = DV(v, d)
    for n, t in case['temps']:
        env[n] = ev(t, env, N)
    vals, jac = {}, {}
    for k, r in enumerate(case['rets']):
        o = ev(r['expr'], env, N)
        if case['opts'].get('static') and k == 0:
            kk = arrs['kopt']
            o = DV(kk * o.v, kk * o.d)
        if tuple(o.v.shape) != tuple(r['shape']):
            raise Infra('generator: return %s has shape %s, declared %s' % (r['name'], o.v.shape, r['shape']))
        vals[r['name']] = o.v
        J = o.d.reshape(max(1, o.v.size), N)
        off = 0
        for a in dargs:
            n = _size(a['shape'])
            jac[(r['name'], a['name'])] = J[:, off:off + n].copy()
            off += n
    return vals, jac


def numpy_eval(case):
    """The generated source text executed by plain NumPy."""
    src = func_source(case, 'func', 'np', self_arg=bool(case['opts'].get('static')))
    f = compile_func(src, 'func')
    arrs = arg_arrays(case)
    a = [arrs[x['name']] for x in case['args']]
    if case['opts'].get('static'):
        class _S(object):
            options = {'kopt': arrs['kopt']}
        r = f(_S(), *a)
    else:
        r = f(*a)
    if not isinstance(r, tuple):
        r = (r,)
    return {ret['name']: np.asarray(v, dtype=float) for ret, v in zip(case['rets'], r)}


def structural_deps(case):
    """(ret name, arg name) pairs where the argument occurs in the (inlined) expression."""
    temps = {n: t for n, t in case['temps']}
    out = set()
    for r in case['rets']:
        for n in used_names(substitute(r['expr'], temps)):
            out.add((r['name'], n))
    return out


def first_point(case):
    """The case evaluated at its first linearization point (two-point cases)."""
    v = dict(case['vals'])
    v.update(case['vals0'])
    c0 = dict(case, vals=v)
    del c0['vals0']
    return c0


def screen(case):
    """Reject badly conditioned draws; returns the oracle data."""
    if 'vals0' in case:
        screen(first_point(case))
    vals, jac = oracle_eval(case)
    nv = numpy_eval(case)
    for r in case['rets']:
        a, b = vals[r['name']], nv[r['name']]
        if a.shape != b.shape or not np.allclose(a, b, rtol=1e-12, atol=1e-12):
            raise Infra('harness: dual evaluation and NumPy evaluation of the generated source differ '
                        'for %s: %s vs %s' % (r['name'], a.tolist(), b.tolist()))
    if case['kind'] in ('ifc', 'jic'):
        Ry = implicit_blocks(case, jac)[1]
        if np.linalg.cond(Ry) > 1e3:
            raise Reject('cond')
    if case['opts'].get('method') == 'fd':
        # a forward difference with step 1e-6 must be good to 2e-5: bound the curvature by moving
        # every differentiable entry by the step and looking at the change of the exact jacobian
        c2 = dict(case, vals={n: ([rat(Fraction(unrat(x)) + Fraction(1, 10 ** 6)) for x in v]
                                  if n != 'kopt' and any(a['name'] == n and a['role'] != 'opt'
                                                         for a in case['args']) else v)
                              for n, v in case['vals'].items()})
        _, jac2 = oracle_eval(c2)
        for k, J in jac.items():
            if np.max(np.abs(jac2[k] - J), initial=0.0) > 2e-5 * max(1.0, np.max(np.abs(J), initial=0.0)):
                raise Reject('curvature')
    return vals, jac


def implicit_blocks(case, jac):
    """(R_x, R_y) in OpenMDAO order: rows = residuals in return order; columns = inputs in input-vector
    order, resp. outputs in output-vector order."""
    ins = [a for a in case['args'] if a['role'] == 'in']
    rows_x, rows_y = [], []
    for r in case['rets']:
        rows_x.append(np.hstack([jac[(r['name'], a['name'])] for a in ins]) if ins else
                      np.zeros((_size(r['shape']), 0)))
        rows_y.append(np.hstack([jac[(r['name'], s['name'])] for s in case['rets']]))
    return np.vstack(rows_x), np.vstack(rows_y)


# ================================================================================================
# building and running the real components

def _err(stage, e):
    return {'error': type(e).__name__, 'stage': stage, 'msg': str(e)[:300]}


def _dense(v):
    if hasattr(v, 'toarray'):
        v = v.toarray()
    return np.atleast_2d(np.asarray(v, dtype=float))


def _decl_pairs(case):
    """(of, wrt) pairs with a structural dependency, using OpenMDAO variable names."""
    deps = structural_deps(case)
    out = []
    for r in case['rets']:
        for a in diff_args(case):
            if (r['name'], a['name']) in deps:
                out.append((r['name'], a['name']))
    return out


def _is_elementwise_diag(case, of, wrt):
    """The expression of `of` is elementwise in `wrt` (same shape, only elementwise nodes, and every
    other operand is a scalar or has the same shape) so that the block is diagonal."""
    temps = {n: t for n, t in case['temps']}
    r = [x for x in case['rets'] if x['name'] == of][0]
    a = [x for x in case['args'] if x['name'] == wrt][0]
    if tuple(r['shape']) != tuple(a['shape']) or not a['shape'] or _size(a['shape']) < 2:
        return False
    t = substitute(r['expr'], temps)
    sh = {x['name']: tuple(x['shape']) for x in case['args']}

    def has(t):
        return wrt in used_names(t)

    def ok(t):
        k = t[0]
        if k in ('var', 'lit'):
            return True
        if not has(t):
            return True
        if k in ('neg', 'powi'):
            return ok(t[1])
        if k == 'prim':
            return ok(t[2])
        if k in ('add', 'sub', 'mul', 'div'):
            return ok(t[1]) and ok(t[2]) and shape_of(t, sh) == tuple(a['shape'])
        return False
    return ok(t)


def build_wrapped(case, oracle=None):
    """om.wrap(func) with metadata according to the case options (efc / ifc)."""
    import openmdao.func_api as omf
    o = case['opts']
    src = func_source(case, 'func', 'np')
    f = compile_func(src, 'func')
    w = omf.wrap(f)
    arrs = arg_arrays(case)
    for a in case['args']:
        if a['role'] == 'opt':
            w.declare_option(a['name'], default=float(unrat(case['vals'][a['name']][0])))
        elif a['role'] == 'in':
            if o.get('spec') == 'val' and a['shape']:
                w.add_input(a['name'], val=np.ones(tuple(a['shape'])))
            else:
                w.add_input(a['name'], shape=tuple(a['shape']))
    implicit = case['kind'] == 'ifc'
    for r in case['rets']:
        kw = {'shape': tuple(r['shape'])}
        if implicit:
            kw['resid'] = r['ret'] if o.get('named', True) else None
            if kw['resid'] is None:
                kw['resid'] = 'r_unnamed_%s' % r['name']
        w.add_output(r['name'], **kw)
    m = o['method']
    if True:
        kw = {} if m == 'user' else {'method': m}
        if o['decl'] == 'star':
            w.declare_partials('*', '*', **kw)
        else:
            for of, wrt in _decl_pairs(case):
                if o['decl'] == 'sparse' and _is_elementwise_diag(case, of, wrt):
                    n = _size([x for x in case['rets'] if x['name'] == of][0]['shape'])
                    w.declare_partials(of, wrt, rows=np.arange(n), cols=np.arange(n), **kw)
                else:
                    w.declare_partials(of, wrt, **kw)
        if o.get('coloring') and m != 'user':
            w.declare_coloring(method=m, show_summary=False, show_sparsity=False)
    return w, f


def _user_partials_cb(case, implicit):
    """A compute_partials / linearize callback that fills the partials from the harness's own AD."""
    names = [a['name'] for a in case['args']]
    if case['opts']['decl'] == 'star':
        declared = [(r['name'], x['name']) for r in case['rets'] for x in diff_args(case)]
    else:
        declared = _decl_pairs(case)

    def cb(*a):
        J = a[-1]
        c2 = dict(case)
        c2['vals'] = dict(case['vals'])
        for n, v, meta in zip(names, a[:-1], case['args']):
            if meta['role'] == 'opt':
                continue
            c2['vals'][n] = [rat(float(x)) for x in np.asarray(v, dtype=float).ravel()]
        _, jac = oracle_eval(c2)
        for of, wrt in declared:
            blk = jac[(of, wrt)]
            if case['opts']['decl'] == 'sparse' and _is_elementwise_diag(case, of, wrt):
                blk = np.diag(blk).copy()
            J[of, wrt] = blk
    return cb


def _solve_nl_cb(case):
    """solve_nonlinear callback: one damped fixed-point sweep y <- y - r / lead (any deterministic
    function of the arguments will do; the component must store exactly what it returns)."""
    src = func_source(case, 'resid_for_solve', 'np')
    f = compile_func(src, 'resid_for_solve')
    names = [a['name'] for a in case['args']]

    def cb(*a):
        r = f(*a)
        if not isinstance(r, tuple):
            r = (r,)
        byname = dict(zip(names, a))
        return tuple(np.asarray(byname[ret['name']]) - 0.125 * np.asarray(rv)
                     for ret, rv in zip(case['rets'], r))
    return cb


def jax_class_source(case):
    """Source text of a JaxExplicitComponent / JaxImplicitComponent subclass."""
    o = case['opts']
    implicit = case['kind'] == 'jic'
    base = 'om.JaxImplicitComponent' if implicit else 'om.JaxExplicitComponent'
    L = ['class GenComp(%s):' % base]
    if o.get('static'):
        L += ['    def initialize(self):',
              "        self.options.declare('kopt', default=%r)" % float(unrat(case['vals']['kopt'][0]))]
    L.append('    def setup(self):')
    ins = [a for a in case['args'] if a['role'] == 'in']
    for a in ins:
        L.append("        self.add_input(%r, shape=%r)" % (a['name'], tuple(a['shape'])))
    for r in case['rets']:
        L.append("        self.add_output(%r, shape=%r)" % (r['name'], tuple(r['shape'])))
    if o['decl'] == 'star':
        L.append("        self.declare_partials('*', '*')")
    elif o['decl'] in ('pairs', 'sparse'):
        for of, wrt in _decl_pairs(case):
            if o['decl'] == 'sparse' and _is_elementwise_diag(case, of, wrt):
                n = _size([x for x in case['rets'] if x['name'] == of][0]['shape'])
                L.append("        self.declare_partials(%r, %r, rows=np.arange(%d), cols=np.arange(%d))"
                         % (of, wrt, n, n))
            else:
                L.append("        self.declare_partials(%r, %r)" % (of, wrt))
    if o.get('coloring'):
        L.append("        self.declare_coloring(show_summary=False, show_sparsity=False)")
    # compute_primal: inputs then outputs (states), in vector order
    names = [a['name'] for a in ins] + ([r['name'] for r in case['rets']] if implicit else [])
    c2 = dict(case)
    if implicit:
        c2 = dict(case, opts=dict(o, named=False))
    else:
        # named returns must carry the output names
        pass
    body = func_source(c2, 'compute_primal', 'jnp', self_arg=True, arg_names=names)
    L += ['    ' + ln for ln in body.splitlines()]
    return '\n'.join(L) + '\n'


def build_component(case):
    import openmdao.api as om
    o = case['opts']
    k = case['kind']
    if k == 'efc':
        w, f = build_wrapped(case)
        kw = {}
        if o['method'] == 'user':
            kw['compute_partials'] = _user_partials_cb(case, False)
        if o['method'] == 'jax':
            kw['use_jit'] = bool(o.get('jit'))
        return om.ExplicitFuncComp(w, **kw)
    if k == 'ifc':
        w, f = build_wrapped(case)
        kw = {}
        if o['method'] == 'user':
            kw['linearize'] = _user_partials_cb(case, True)
        if o.get('solve_nl'):
            kw['solve_nonlinear'] = _solve_nl_cb(case)
        if o['method'] == 'jax':
            kw['use_jit'] = bool(o.get('jit'))
        comp = om.ImplicitFuncComp(w, **kw)
        return comp
    import jax.numpy as jnp
    src = jax_class_source(case)
    cls = compile_func(src, 'GenComp', {'om': om, 'jnp': jnp})
    return cls(matrix_free=bool(o.get('mf')), use_jit=bool(o.get('jit')))


def _coloring_export(comp):
    """Groups and sparsity of the component's partial coloring (for the Lean-side validator)."""
    try:
        col = comp._coloring_info.coloring
        if col is None:
            return None
        out = {'shape': [int(col._shape[0]), int(col._shape[1])],
               'nz': sorted([int(r), int(c)] for r, c in zip(col._nzrows, col._nzcols))}
        for d in ('fwd', 'rev'):
            grp = getattr(col, '_' + d)
            out[d] = None if not grp else [[int(i) for i in g] for g in grp[0]]
        return out
    except Exception:
        return None


def run_real(case):
    """Build a Problem around the component and observe it through the public API."""
    import openmdao.api as om
    o = case['opts']
    kind = case['kind']
    implicit = kind in ('ifc', 'jic')
    arrs = arg_arrays(case)
    ins = [a for a in case['args'] if a['role'] == 'in']
    res = {}
    modes = ['fwd', 'rev'] if o.get('both_modes') else [o.get('mode', 'fwd')]
    # OpenMDAO's sparsity sampling draws its perturbations from the global NumPy generator
    import hashlib
    np.random.seed(int(hashlib.sha1(canon(case).encode()).hexdigest()[:8], 16))
    for mi, mode in enumerate(modes):
        stage = 'build'
        try:
            p = om.Problem()
            ivc = p.model.add_subsystem('ivc', om.IndepVarComp())
            for a in ins:
                ivc.add_output(a['name'], val=np.asarray(arrs[a['name']], dtype=float))
            comp = build_component(case)
            p.model.add_subsystem('c', comp)
            for a in ins:
                p.model.connect('ivc.' + a['name'], 'c.' + a['name'])
            if implicit:
                p.model.linear_solver = om.DirectSolver(assemble_jac=(mi == 0 and not o.get('mf')))
            stage = 'setup'
            p.setup(mode=mode, force_alloc_complex=(o['method'] == 'cs'))
            if 'vals0' in case:
                # first linearization (sparsity / coloring are sampled here, once) at the first point
                stage = 'first_point'
                arrs0 = arg_arrays(first_point(case))
                for a in ins:
                    p.set_val('ivc.' + a['name'], np.asarray(arrs0[a['name']], dtype=float))
                if implicit:
                    for r in case['rets']:
                        p.set_val('c.' + r['name'], np.asarray(arrs0[r['name']], dtype=float))
                p.run_model()
                if implicit:
                    for r in case['rets']:
                        p.set_val('c.' + r['name'], np.asarray(arrs0[r['name']], dtype=float))
                    p.model.run_apply_nonlinear()
                of0 = ['c.' + r['name'] for r in case['rets']]
                wrt0 = ['ivc.' + a['name'] for a in ins]
                J0 = p.compute_totals(of=of0, wrt=wrt0)
                res['totals0_' + mode] = {'%s|%s' % (a.split('.')[1], b.split('.')[1]):
                                          _dense(v).tolist() for (a, b), v in J0.items()}
                if mi == 0 and implicit:
                    cp0 = p.check_partials(out_stream=None, compact_print=True)
                    res['partials0'] = {'%s|%s' % k: _dense(d['J_fwd']).tolist()
                                        for k, d in cp0['c'].items() if 'J_fwd' in d}
                # ... and on to the generic point
                for a in ins:
                    p.set_val('ivc.' + a['name'], np.asarray(arrs[a['name']], dtype=float))
                stage = 'setup'
            if implicit:
                for r in case['rets']:
                    p.set_val('c.' + r['name'], np.asarray(arrs[r['name']], dtype=float))
            stage = 'final_setup'
            p.final_setup()
            stage = 'run_model'
            p.run_model()
            if mi == 0:
                if implicit:
                    if o.get('solve_nl'):
                        res['solved'] = {r['name']: np.asarray(p.get_val('c.' + r['name']),
                                                               dtype=float).ravel().tolist()
                                         for r in case['rets']}
                        # back to the prescribed state for everything that follows
                        for r in case['rets']:
                            p.set_val('c.' + r['name'], np.asarray(arrs[r['name']], dtype=float))
                    stage = 'apply_nonlinear'
                    p.model.run_apply_nonlinear()
                    rs = p.model.list_outputs(residuals=True, out_stream=None, return_format='dict',
                                              val=False)
                    res['out'] = {r['name']: np.asarray(rs['c.' + r['name']]['resids'],
                                                        dtype=float).ravel().tolist()
                                  for r in case['rets']}
                    res['out_shape'] = {r['name']: list(np.shape(rs['c.' + r['name']]['resids']))
                                        for r in case['rets']}
                else:
                    res['out'] = {r['name']: np.asarray(p.get_val('c.' + r['name']),
                                                        dtype=float).ravel().tolist()
                                  for r in case['rets']}
                    res['out_shape'] = {r['name']: list(np.shape(p.get_val('c.' + r['name'])))
                                        for r in case['rets']}
                if implicit:
                    stage = 'check_partials'
                    cpkw = {'form': 'central'} if o['method'] == 'fd' else {}
                    cp = p.check_partials(out_stream=None, compact_print=True, **cpkw)
                    part = {}
                    for (of, wrt), d in cp['c'].items():
                        if 'J_fwd' in d:
                            part['%s|%s' % (of, wrt)] = _dense(d['J_fwd']).tolist()
                    res['partials'] = part
                res['coloring'] = _coloring_export(p.model.c) if o.get('coloring') else None
                res['direction'] = p.model.c.best_partial_deriv_direction()
            stage = 'compute_totals'
            if implicit:
                # FD baselines read the residual vector: make it current at the prescribed state
                for r in case['rets']:
                    p.set_val('c.' + r['name'], np.asarray(arrs[r['name']], dtype=float))
                p.model.run_apply_nonlinear()
            of = ['c.' + r['name'] for r in case['rets']]
            wrt = ['ivc.' + a['name'] for a in ins]
            if wrt:
                J = p.compute_totals(of=of, wrt=wrt)
                res['totals_' + mode] = {'%s|%s' % (a.split('.')[1], b.split('.')[1]):
                                         _dense(v).tolist() for (a, b), v in J.items()}
            else:
                res['totals_' + mode] = {}
            if mi == 0 and not implicit:
                # an explicit component fed by IndepVarComps: d(out)/d(ivc) *is* the partial
                res['partials'] = dict(res['totals_' + mode])
                res['coloring'] = _coloring_export(p.model.c) if o.get('coloring') else None
        except Exception as e:    # the real code's exceptions are results
            res.update(_err(stage, e))
            res['mode'] = mode
            break
        finally:
            try:
                p.cleanup()
            except Exception:
                pass
    return res


# ================================================================================================
# comparing the observation with the direct oracle

def _close(got, exp, tol):
    got = np.asarray(got, dtype=float)
    exp = np.asarray(exp, dtype=float)
    if got.shape != exp.shape:
        if got.size == exp.size:
            got = got.reshape(exp.shape)
        else:
            return False, 'shape %s vs %s' % (got.shape, exp.shape)
    if not np.all(np.isfinite(got)):
        return False, 'non-finite'
    scale = max(1.0, float(np.max(np.abs(exp))) if exp.size else 1.0)
    err = float(np.max(np.abs(got - exp))) if exp.size else 0.0
    if err > tol * scale:
        return False, 'max abs err %.3e (scale %.3g)' % (err, scale)
    return True, ''


def expected(case):
    """Everything the property prescribes for a case, from the direct oracle."""
    vals, jac = oracle_eval(case)
    nv = numpy_eval(case)
    implicit = case['kind'] in ('ifc', 'jic')
    ins = [a for a in case['args'] if a['role'] == 'in']
    exp = {'out': {r['name']: nv[r['name']] for r in case['rets']}, 'partials': {}, 'totals': {}}
    for r in case['rets']:
        for a in diff_args(case):
            exp['partials'][(r['name'], a['name'])] = jac[(r['name'], a['name'])]
    if implicit:
        Rx, Ry = implicit_blocks(case, jac)
        T = -np.linalg.solve(Ry, Rx) if Rx.shape[1] else np.zeros((Ry.shape[0], 0))
        ro = 0
        for r in case['rets']:
            n = _size(r['shape'])
            co = 0
            for a in ins:
                m = _size(a['shape'])
                exp['totals'][(r['name'], a['name'])] = T[ro:ro + n, co:co + m]
                co += m
            ro += n
        if case['opts'].get('solve_nl'):
            arrs = arg_arrays(case)
            exp['solved'] = {r['name']: np.asarray(arrs[r['name']]) - 0.125 * nv[r['name']]
                             for r in case['rets']}
    else:
        for r in case['rets']:
            for a in ins:
                exp['totals'][(r['name'], a['name'])] = jac[(r['name'], a['name'])]
    return exp


def judge(case, impl):
    """None when the observation satisfies the property, else a failure dict."""
    if 'error' in impl:
        return {'what': 'component raised %s during %s' % (impl['error'], impl['stage']),
                'msg': impl.get('msg'), 'class': 'raise'}
    m = case['opts']['method']
    tol = TOL_FD if m == 'fd' else TOL
    if 'vals0' in case:
        exp0 = expected(first_point(case))
        for tk in ('totals0_fwd', 'totals0_rev'):
            for (of, wrt), J in sorted(exp0['totals'].items()):
                if tk not in impl:
                    continue
                got = impl[tk].get('%s|%s' % (of, wrt))
                ok, why = (False, 'missing') if got is None else _close(
                    got, J, tol * (10 if case['kind'] in ('ifc', 'jic') else 1))
                if not ok:
                    return {'what': '%s (%s, %s) at the first linearization point differs from the exact '
                            'total derivative' % (tk, of, wrt), 'why': why, 'class': 'total0'}
        for (of, wrt), J in sorted(exp0['partials'].items()):
            got = impl.get('partials0', {}).get('%s|%s' % (of, wrt))
            if got is None:
                continue
            ok, why = _close(got, J, tol)
            if not ok:
                return {'what': 'partial (%s, %s) at the first linearization point differs from the exact '
                        'derivative' % (of, wrt), 'why': why, 'class': 'partial0'}
    exp = expected(case)
    for r in case['rets']:
        n = r['name']
        ok, why = _close(impl['out'][n], np.asarray(exp['out'][n]).ravel(), TOL)
        if not ok:
            return {'what': '%s %s differs from the function value' %
                    ('residual' if case['kind'] in ('ifc', 'jic') else 'output', n),
                    'why': why, 'class': 'value', 'got': impl['out'][n],
                    'expected': np.asarray(exp['out'][n]).ravel().tolist()}
        if tuple(impl['out_shape'][n]) != tuple(r['shape']):
            return {'what': 'output %s has shape %s, declared %s' % (n, impl['out_shape'][n], r['shape']),
                    'class': 'shape'}
    if 'solved' in exp:
        for n, v in exp['solved'].items():
            ok, why = _close(impl['solved'][n], np.asarray(v).ravel(), TOL)
            if not ok:
                return {'what': 'outputs after solve_nonlinear differ from the callback result (%s)' % n,
                        'why': why, 'class': 'solve_nl'}
    for (of, wrt), J in sorted(exp['partials'].items()):
        got = impl['partials'].get('%s|%s' % (of, wrt))
        if got is None:
            if np.max(np.abs(J), initial=0.0) > 0:
                return {'what': 'partial (%s, %s) is missing but the exact derivative is nonzero' % (of, wrt),
                        'class': 'missing'}
            continue
        ok, why = _close(got, J, tol)
        if not ok:
            return {'what': 'partial (%s, %s) differs from the exact derivative' % (of, wrt),
                    'why': why, 'class': 'partial', 'got': got, 'expected': J.tolist()}
    tots = [k for k in ('totals_fwd', 'totals_rev') if k in impl]
    for tk in tots:
        for (of, wrt), J in sorted(exp['totals'].items()):
            got = impl[tk].get('%s|%s' % (of, wrt))
            if got is None:
                return {'what': '%s (%s, %s) missing' % (tk, of, wrt), 'class': 'total'}
            ok, why = _close(got, J, tol * (10 if case['kind'] in ('ifc', 'jic') else 1))
            if not ok:
                return {'what': '%s (%s, %s) differs from the exact total derivative' % (tk, of, wrt),
                        'why': why, 'class': 'total', 'got': got, 'expected': J.tolist()}
    if len(tots) == 2:
        for k, a in impl['totals_fwd'].items():
            ok, why = _close(impl['totals_rev'][k], a, tol * 10)
            if not ok:
                return {'what': 'fwd and rev totals differ for %s' % k, 'why': why, 'class': 'fwdrev'}
    return None


# ================================================================================================
# the Lean model's view of a case

def model_func(case):
    """(args, rets, vals) of the driver request, or None when the case leaves the modelled subset."""
    kind = case['kind']
    temps = {n: t for n, t in case['temps']}
    if kind in ('jec', 'jic'):
        margs = [a for a in case['args'] if a['role'] == 'in']
        if kind == 'jic':
            byname = {a['name']: a for a in case['args']}
            margs = margs + [byname[r['name']] for r in case['rets']]
    else:
        margs = list(case['args'])
    margs = [dict(a) for a in margs]
    if case['opts'].get('static'):
        margs.append({'name': 'kopt', 'role': 'opt', 'shape': []})
    varidx = {a['name']: i for i, a in enumerate(margs)}
    sh = {a['name']: tuple(a['shape']) for a in margs}
    retidx = {r['name']: k for k, r in enumerate(case['rets'])}
    jargs = []
    for a in margs:
        d = {'role': a['role'], 'shape': list(a['shape'])}
        if a['role'] == 'state':
            d['resid'] = retidx[a['name']]
        jargs.append(d)
    jrets = []
    for k, r in enumerate(case['rets']):
        t = substitute(r['expr'], temps)
        if case['opts'].get('static') and k == 0:
            t = ['mul', ['var', 'kopt'], t]
        e = to_lean(t, sh, varidx)
        if e is None:
            return None
        jrets.append({'shape': list(r['shape']), 'expr': e})
    vals = [list(case['vals'][a['name']]) for a in margs]
    return jargs, jrets, vals, [a['name'] for a in margs]


def states_permuted(case):
    st = [a['name'] for a in case['args'] if a['role'] == 'state']
    return case['kind'] == 'ifc' and st != [r['name'] for r in case['rets']]


def best_direction(case):
    nout = sum(_size(r['shape']) for r in case['rets'])
    nin = sum(_size(a['shape']) for a in case['args'] if a['role'] == 'in')
    return 'fwd' if nout >= nin else 'rev'


def has_T_on_expr(case):
    """`(expr).T` with a non-name operand: the shape `get_function_deps` does not follow."""
    trees = [t for _, t in case['temps']] + [r['expr'] for r in case['rets']]
    return any(n[0] == 'T' and n[1][0] != 'var' for t in trees for n in walk(t))


def sparse_pairs(case):
    if case['opts'].get('decl') != 'sparse':
        return 0
    return sum(1 for of, wrt in _decl_pairs(case) if _is_elementwise_diag(case, of, wrt))


def coloring_lost_entries(case, impl):
    """The sparsity stored in the component's coloring misses an entry that is nonzero in the exact
    jacobian at the evaluation point (OpenMDAO layout: rows = returns, columns = outputs then
    inputs for implicit components, inputs for explicit ones)."""
    col = impl.get('coloring')
    if not col or 'error' in impl:
        return False
    try:
        _, jac = oracle_eval(case)
    except Reject:
        return False
    ins = [a for a in case['args'] if a['role'] == 'in']
    cols = ([r['name'] for r in case['rets']] if case['kind'] in ('ifc', 'jic') else []) + \
        [a['name'] for a in ins]
    J = np.vstack([np.hstack([jac[(r['name'], c)] for c in cols]) for r in case['rets']])
    nz = {(int(r), int(c)) for r, c in col['nz']}
    rr, cc = np.nonzero(np.abs(J) > 1e-12)
    return any((int(r), int(c)) not in nz for r, c in zip(rr, cc))


def msg_key(msg):
    import re
    return re.sub(r'\d+', 'N', (msg or ''))[:72]


# ================================================================================================
# running the real code in-process (serial: on this machine concurrent jax interpreters run slower
# than one; measured 48 cases: 1 process 21 s, 4 processes 42-60 s)

def run_quiet(case):
    import contextlib
    with open(os.devnull, 'w') as dn, contextlib.redirect_stdout(dn), contextlib.redirect_stderr(dn), \
            warnings.catch_warnings():
        warnings.simplefilter('ignore')
        return run_real(case)


# ================================================================================================

KINDS = ['efc'] * 9 + ['ifc'] * 6 + ['jec'] * 3 + ['jic'] * 2


class C34(Property):
    pid = 'C34'
    level = 'partial'
    workers = 1
    tolerance = TOL
    required_theorems = [
        'C34_outputs', 'C34_binding_inputs', 'C34_implicit_residual', 'C34_implicit_residual_partial',
        'C34_implicit_residual_needs_order', 'C34_c_order', 'C34_partials_exact', 'C34_single_return_rows', 'C34_partials_sparse',
        'C34_derivs2partials', 'C34_colored_expand', 'C34_colored_expand_checked',
        'C34_implicit_partials', 'C34_ad_contract_expr', 'C34_partials_exact_expr']
    rule = ("cases: a random smooth function written as Python source text (exec'd; body from + - * / "
            "**2 **3, sin cos exp tanh sqrt, sum, dot, indexing, [::-1], slicing, outer, @, .T, axis sums, "
            "rows/columns, shared temporaries) over 1-3 inputs of shapes (), (1,), (2,)..(5,), (2,2), "
            "(2,3), (3,2), (1,3) and 1-3 return values of any reachable shape, wrapped as "
            "ExplicitFuncComp (method jax / cs / fd / user compute_partials; use_jit; static option "
            "argument; named or unnamed returns; shape= or val= metadata), ImplicitFuncComp (states "
            "interleaved with inputs in the signature, optionally out of residual order; jax / cs / fd / "
            "user linearize; solve_nonlinear callback), or as a generated JaxExplicitComponent / "
            "JaxImplicitComponent subclass (compute_primal; matrix_free; use_jit; self.options static); "
            "partials declared '*','*', per dependent pair, with rows/cols for elementwise pairs, or "
            "(jax components) not at all; declare_coloring on/off; problem mode fwd, rev or both. A "
            "two-point family heads the stream: components with automatic sparsity (no declared "
            "partials, or declare_coloring) are first linearized at a point where states / inputs are "
            "exactly 0.0 (a coupling term state*g(inputs) makes partials that vanish there), then at a "
            "generic point; partials and totals are compared with the exact ones at both points. "
            "Observed through get_val / residuals / check_partials()['J_fwd'] / compute_totals. "
            "Compared with NumPy execution of the same source text, with the harness's own dual-number "
            "derivative of the expression tree (tolerance 1e-9 relative; 2e-4 for method='fd'), fwd "
            "totals against rev totals, and — for bodies inside the Lean expression language — with the "
            "Lean model's outputs and assembled jacobian (Rat exact for rational bodies, Float "
            "otherwise). Non-trivial: the component ran and some exact partial is non-zero; distinct by "
            "canonical case encoding.")
    assumptions = [
        "jax's jvp/vjp/jacfwd/jacrev return the exact derivative of the traced function (third-party "
        "contract `IsJac`; validated on every case by the dual-number oracle, discharged in Lean for "
        "the modelled expression language by C34_ad_contract_expr)",
        "floats: values are multiples of 1/8 in [-1.5, 1.5]; cases whose values or derivatives exceed "
        "1e3, divide by < 0.2, or (implicit) have cond(dR/dy) > 1e3 are redrawn; comparison is "
        "|a-b| <= tol*max(1, max|expected block|)",
        "method='cs' is compared at 1e-9 (complex step is exact to rounding); method='fd' only at 2e-4 "
        "(accuracy of approximations is property C12)",
        "the coloring object is an input of the model (algorithm: property C03); it is exported from "
        "the component and checked by the validators coloringOkFwd/Rev on every case",
    ]
    level_text = ("The mechanism around the AD engine is modelled literally and proved for all signatures "
                  "and shapes: argument binding and output unpacking (outputs/residuals equal the function "
                  "of the same-named variables), C-order reshapes of the batched jvp/vjp blocks, the "
                  "start:end stacking in both directions, declared rows/cols gathers, _jax_derivs2partials, "
                  "colored evaluation + Coloring._expand_jac under a decidable properness certificate, and "
                  "the output-first column reordering of ImplicitFuncComp; all 'GIVEN jvp = J·d, vjp = Jᵀ·w', "
                  "a contract that is proved for the C14 expression language (forward mode over dual "
                  "numbers) and assumed for jax. The current positional binding of implicit states is "
                  "proved right only for states listed in residual order, with a kernel-checked "
                  "counterexample. The model is tied to the four real component classes by differential "
                  "runs on generated source-text functions.")
    level_note = ("Trusted: Lean kernel + standard axioms; the harness; jax AD (contract, validated per case "
                  "by an independent dual-number oracle); NumPy. Modelled, not verified: rounding. "
                  "Differential only: jit, sparsity detection and the coloring algorithm (its result is "
                  "validated per case), func_api metadata defaults, get_function_deps inference, "
                  "matrix-free products, cs/fd approximations, 2-D linear algebra inside function bodies.")
    technique = ("Lean 4 proof (list/index algebra, finite sums, structural induction via C14) + "
                 "differential correspondence with an independent forward-mode oracle")
    trusted_extra = [
        "jax (jvp, vjp, jacfwd, jacrev, vmap, jit): contract IsJac, validated per case by the oracle",
        "NumPy reshape/ravel are C-order (model: ravel/unravel; driver op c_order compared with "
        "np.unravel_index on every run)",
        "OpenMDAO's coloring algorithm (C03): its groups are inputs of the model, validated per case",
    ]

    flags = None
    _cache = None

    # -- probes: which variant of the code is in the tree ------------------------------------------
    PROBE = {'kind': 'ifc',
             'args': [{'name': 'x0', 'role': 'in', 'shape': []},
                      {'name': 'y1', 'role': 'state', 'shape': [], 'resid': 'r1'},
                      {'name': 'y0', 'role': 'state', 'shape': [], 'resid': 'r0'}],
             'temps': [],
             'rets': [{'name': 'y0', 'ret': 'r0', 'shape': [],
                       'expr': ['sub', ['mul', ['lit', '2'], ['var', 'y0']], ['var', 'x0']]},
                      {'name': 'y1', 'ret': 'r1', 'shape': [],
                       'expr': ['mul', ['lit', '3'], ['var', 'y1']]}],
             'vals': {'x0': ['1'], 'y0': ['5'], 'y1': ['7']},
             'opts': {'method': 'cs', 'jit': False, 'coloring': False, 'decl': 'star',
                      'named': True, 'solve_nl': False, 'both_modes': False, 'mode': 'fwd'}}

    def setup(self, tier):
        if self._cache is None:
            self._cache = {}

    def _set_flags(self, res):
        """Does `_ordered_func_invals` bind the states by name (repaired) or positionally?"""
        by_name = None
        try:
            r0 = res['out']['y0'][0]
            if abs(r0 - 9.0) < 1e-12:
                by_name = True
            elif abs(r0 - 13.0) < 1e-12:
                by_name = False
        except Exception:
            pass
        if by_name is None:
            raise Infra('C34 probe: cannot classify the binding of implicit states: %r' % (res,))
        self.flags = {'byName': by_name}

    def _ensure_flags(self):
        if self.flags is None:
            self._set_flags(self.run_impl(self.PROBE))

    # -- cases ---------------------------------------------------------------------------------------
    def draw(self, rng, kind, tier, force=None):
        for _ in range(200):
            case = gen_case(rng, kind, tier, force)
            try:
                screen(case)
                return case
            except (Reject, FloatingPointError, ZeroDivisionError, OverflowError):
                continue
        return None

    def cases(self, rng, tier):
        n = 76 if tier == 'quick' else 1500
        out = []
        forced = [
            ('ifc', {'permute_states': True}),
            ('efc', {'opts': {'method': 'jax', 'coloring': True, 'decl': 'star'}}),
            ('efc', {'opts': {'method': 'jax', 'coloring': False}, 'modelled': True}),
            ('jec', {'opts': {'coloring': True, 'mf': False, 'decl': 'star'}, 'modelled': True}),
            ('jec', {'opts': {'mf': True, 'coloring': False}}),
            ('jic', {'opts': {'coloring': False, 'mf': False}, 'modelled': True}),
            ('ifc', {'opts': {'method': 'jax', 'coloring': False}, 'modelled': True,
                     'permute_states': False}),
            ('ifc', {'opts': {'method': 'jax', 'coloring': True}, 'permute_states': False}),
        ]
        # first linearization at a point with exact zeros, second at a generic point: automatic
        # sparsity (no declared partials) and colorings must not lose the entries that vanish there
        two = [('jic', {'decl': 'infer', 'coloring': False}), ('jic', {'decl': 'star', 'coloring': True}),
               ('jic', {'decl': 'infer', 'coloring': True}), ('jic', {'decl': 'infer', 'coloring': False}),
               ('jec', {'decl': 'infer', 'coloring': False}), ('jec', {'decl': 'star', 'coloring': True}),
               ('jic', {'decl': 'pairs', 'coloring': True}), ('ifc', {'method': 'jax', 'coloring': True}),
               ('efc', {'method': 'jax', 'coloring': True, 'decl': 'star'}),
               ('jic', {'decl': 'infer', 'coloring': True})]
        for _ in range(1 if tier == 'quick' else 12):
            for kind, o2 in two:
                o2 = dict(o2, mf=False) if kind in ('jec', 'jic') else dict(o2)
                c = self.draw(rng, kind, tier, {'two_point': True, 'opts': o2, 'permute_states': False})
                if c is not None:
                    out.append(c)
        reps = 1 if tier == 'quick' else 12
        for _ in range(reps):
            for kind, force in forced:
                c = self.draw(rng, kind, tier, force)
                if c is not None:
                    out.append(c)
        while len(out) < n:
            c = self.draw(rng, rng.choice(KINDS), tier)
            if c is not None:
                out.append(c)
        return out

    def run_impl(self, case):
        if self._cache is None:
            self._cache = {}
        k = canon(case)
        if k not in self._cache:
            self._cache[k] = json.loads(json.dumps(run_quiet(case)))
        return self._cache[k]

    # -- direct oracle -----------------------------------------------------------------------------
    def oracle(self, case, impl):
        try:
            return judge(case, impl)
        except Reject as e:
            raise Infra('C34: a corpus/replay case is not well-conditioned: %s' % e)

    def signature(self, case, impl, failure):
        o = case['opts']
        return {'kind': case['kind'], 'method': o.get('method'), 'coloring': bool(o.get('coloring')),
                'decl': o.get('decl'), 'decl_sparse': sparse_pairs(case) > 0, 'mf': bool(o.get('mf')),
                'states_permuted': states_permuted(case),
                'single_arg': len(diff_args(case)) == 1,
                'direction': best_direction(case),
                'mode_mismatch': any(m != best_direction(case) for m in
                                     (['fwd', 'rev'] if o.get('both_modes') else [o.get('mode', 'fwd')])),
                'T_on_expr': has_T_on_expr(case), 'two_point': 'vals0' in case,
                'coloring_lost_entries': coloring_lost_entries(case, impl),
                'func_comp': case['kind'] in ('efc', 'ifc'),
                'class': failure.get('class'), 'error': impl.get('error'),
                'msg_key': msg_key(impl.get('msg')) if 'error' in impl else None}

    def nontrivial(self, case, impl):
        if 'error' in impl:
            return False
        return any(np.max(np.abs(np.asarray(v)), initial=0.0) > 0 for v in impl.get('partials', {}).values())

    def bucket(self, case, impl):
        o = case['opts']
        dims = lambda xs: sorted({('scalar', '1-D', '2-D')[min(len(x['shape']), 2)] for x in xs})
        b = ['kind=' + case['kind'], 'method=%s' % o.get('method'),
             'coloring=%s' % ('requested' if o.get('coloring') else 'off'),
             'decl=%s' % o.get('decl'), 'nrets=%d' % len(case['rets']),
             'nargs=%d' % len(case['args']),
             'modes=%s' % ('both' if o.get('both_modes') else o.get('mode', 'fwd')),
             'impl_error' if 'error' in impl else 'impl_ok']
        b += ['in_' + d for d in dims([a for a in case['args'] if a['role'] == 'in'])]
        b += ['out_' + d for d in dims(case['rets'])]
        for k in ('jit', 'mf', 'static', 'solve_nl'):
            if o.get(k):
                b.append(k)
        if not o.get('named', True):
            b.append('unnamed_returns')
        if any(a['role'] == 'opt' for a in case['args']):
            b.append('option_arg')
        if case['temps']:
            b.append('shared_temporary')
        if 'vals0' in case:
            b.append('two_point(first linearization at zeros)')
        if states_permuted(case):
            b.append('states_out_of_order')
        if 'error' not in impl:
            b.append('direction=' + str(impl.get('direction')))
            if o.get('coloring'):
                col = impl.get('coloring')
                b.append('coloring_active' if col else 'coloring_deactivated')
        mf = model_func(case)
        b.append('lean_modelled' if mf is not None else 'oracle_only')
        if mf is not None and 'error' not in impl:
            jaxlike = (case['kind'] in ('jec', 'jic') and not o.get('mf')) or o.get('method') == 'jax'
            b.append('model_compared=values+jacobian' if jaxlike else 'model_compared=values')
        if mf is not None:
            temps = {n: t for n, t in case['temps']}
            b.append('carrier=rat' if all(is_rational(substitute(r['expr'], temps))
                                          for r in case['rets']) else 'carrier=float')
        return b

    # -- Lean model --------------------------------------------------------------------------------
    def _model_dir(self, case, impl):
        if case['kind'] == 'ifc':
            o = case['opts']
            return 'fwd' if o.get('both_modes') else o.get('mode', 'fwd')
        return impl.get('direction')

    def model_requests(self, case, impl):
        reqs = [{'op': 'c_order', 'shape': list(r['shape']) + [3], 'k': (7 * k + 5) % (3 * _size(r['shape']))}
                for k, r in enumerate(case['rets'])][:1]
        if 'error' in impl:
            return reqs
        mf = model_func(case)
        if mf is None:
            return reqs
        self._ensure_flags()
        jargs, jrets, vals, names = mf
        o = case['opts']
        coloring = None
        d = self._model_dir(case, impl)
        col = impl.get('coloring') if o.get('coloring') else None
        if col:
            # a partial coloring is unidirectional: the direction it was computed for is the
            # direction the component linearizes in
            dirs = [x for x in ('fwd', 'rev') if col.get(x)]
            if len(dirs) != 1:
                return reqs
            d = dirs[0]
            coloring = {'nz': col['nz'], 'groups': col[d]}
        reqs.append({'op': 'comp', 'kind': case['kind'], 'args': jargs, 'rets': jrets, 'vals': vals,
                     'byName': bool(self.flags['byName']), 'dir': d, 'coloring': coloring,
                     # one return value is returned bare (`return r0`), not as a 1-tuple
                     'single': len(case['rets']) == 1})
        return reqs

    def compare(self, case, impl, answers):
        a0 = answers[0]
        r0 = case['rets'][0]
        shp = tuple(r0['shape']) + (3,)
        k = 5 % (3 * _size(r0['shape']))
        if [int(i) for i in np.unravel_index(k, shp)] != a0['idx'] or a0['back'] != k or \
                a0['size'] != int(np.prod(shp)):
            raise Infra('C34: model unravel %r differs from np.unravel_index for shape %r, k=%d'
                        % (a0, shp, k))
        if len(answers) < 2:
            return None
        a = answers[1]
        if not a.get('ok'):
            if a.get('err') == 'unsupported':
                return None
            raise Infra('C34: driver rejected a generated case (%s)' % a.get('err'))
        num = lambda s: float(unrat(s))
        o = case['opts']
        for k, r in enumerate(case['rets']):
            ok, why = _close(impl['out'][r['name']], [num(x) for x in a['out'][k]], TOL)
            if not ok:
                return 'model value of %s differs from the implementation: %s' % (r['name'], why)
        J = np.array([[num(x) for x in row] for row in a['J']], dtype=float)
        E = np.array([[num(x) for x in row] for row in a['exact']], dtype=float)
        if a.get('colorOk') is False:
            return 'the coloring exported from the component fails the properness validator'
        if J.size:
            ok, why = _close(J, E, TOL)
            if not ok:
                return 'model: assembled jacobian differs from the exact partials: %s' % why
        jaxlike = (case['kind'] in ('jec', 'jic') and not o.get('mf')) or o.get('method') == 'jax'
        if not jaxlike:
            return None
        # blocks of the model jacobian in the implementation's (of, wrt) naming
        mf = model_func(case)
        names = mf[3]
        implicit = case['kind'] in ('ifc', 'jic')
        if implicit:
            colnames = [names[p] for p in a['omVars']]
        else:
            colnames = [n for n, ar in zip(names, mf[0]) if ar['role'] != 'opt']
        sizes = {n: _size(ar['shape']) for n, ar in zip(names, mf[0])}
        ro = 0
        for r in case['rets']:
            nr = _size(r['shape'])
            co = 0
            for cn in colnames:
                nc = sizes[cn]
                got = impl['partials'].get('%s|%s' % (r['name'], cn))
                blk = J[ro:ro + nr, co:co + nc]
                if got is None:
                    if np.max(np.abs(blk), initial=0.0) > 0:
                        return 'model has a nonzero block (%s, %s) the implementation does not report' % (
                            r['name'], cn)
                else:
                    ok, why = _close(got, blk, TOL)
                    if not ok:
                        return 'model block (%s, %s) differs from the implementation: %s' % (
                            r['name'], cn, why)
                co += nc
            ro += nr
        return None

    def search(self, rng, budget_s):
        n = 0
        while True:
            c = self.draw(rng, rng.choice(KINDS), 'quick')
            if c is not None:
                n += 1
                yield c


PROP = C34()
