"""C23 — DOE generators stay within bounds and cover their designs."""
import itertools
import math
import os
import warnings
from collections import Counter
from fractions import Fraction

import numpy as np

import common
from common import Property, rat, unrat

# value pools -----------------------------------------------------------------------------------
DY = [Fraction(k, 4) for k in range(-24, 25)]                       # dyadic, exact in binary
ODD = [Fraction(1, 10), Fraction(3, 10), Fraction(-7, 10), Fraction(22, 7), Fraction(1, 3)]
UNITS = [(None, None), (None, None), (None, 'm'), ('cm', 'm'), ('km', 'm'), ('degF', 'degC'),
         ('inch', 'ft'), ('m', 'm')]
LEVEL_GENS = ('FullFactorial', 'PlackettBurman', 'BoxBehnken', 'GeneralizedSubset')
CRITERIA = [None, 'center', 'c', 'maximin', 'm', 'centermaximin', 'cm', 'correlation', 'corr']
INF_BOUND = 1e30
RTOL = 1e-12


def frat(x):
    """float -> wire; NaN/inf spelled out (never expected, but must not crash the encoder)."""
    x = float(x)
    if math.isnan(x):
        return 'nan'
    if math.isinf(x):
        return 'inf' if x > 0 else '-inf'
    return rat(x)


def frats(a):
    return [frat(v) for v in np.asarray(a, dtype=float).ravel().tolist()]


def isnum(s):
    return s not in ('nan', 'inf', '-inf')


def close(a, b, scale=1):
    """a, b Fractions; agreement up to the recorded rounding tolerance."""
    return abs(a - b) <= Fraction(RTOL) * max(1, abs(a), abs(b), scale)


def fl(v):
    return float(unrat(v))


def bound_list(b, size, default):
    """Declared bound of a case -> list of `size` Fractions (exact values of the doubles used)."""
    if b is None:
        return [Fraction(default)] * size
    if isinstance(b, list):
        return [Fraction(fl(x)) for x in b]
    return [Fraction(fl(b))] * size


def np_bound(b):
    if b is None:
        return None
    if isinstance(b, list):
        return np.array([fl(x) for x in b])
    return fl(b)


def dv_levels(levels, name):
    """The documented rule: int for everybody, else dict entry, else "default" entry, else 2."""
    if isinstance(levels, int):
        return levels
    return levels.get(name, levels.get('default', 2))


def resolve_idx(indices, n):
    if indices is None:
        return None
    if isinstance(indices, dict):
        return np.arange(n)[slice(*indices['slice'])].tolist()
    return np.arange(n)[np.array(indices, dtype=int)].tolist()


def py_idx(indices):
    if isinstance(indices, dict):
        return slice(*indices['slice'])
    return indices


class _Capture:
    """Records calls of the third-party pydoe design functions made by the generators (the
    generators import them from `pydoe` when constructed)."""
    NAMES = ('fullfact', 'lhs', 'pbdesign', 'bbdesign', 'gsd')

    def __init__(self, entropy=0):
        self.calls = []
        self.entropy = entropy

    def __enter__(self):
        import pydoe
        self.mod = pydoe
        self.orig = {n: getattr(pydoe, n) for n in self.NAMES}
        for n in self.NAMES:
            setattr(pydoe, n, self._wrap(n, self.orig[n]))
        return self

    def _wrap(self, name, fn):
        def wrapped(*a, **k):
            if name == 'lhs' and k.get('random_state') is None and k.get('seed') is None:
                # an unseeded LHS would draw OS entropy inside pydoe; keep the run replayable by
                # handing pydoe a generator derived from the case (a different one per call)
                k = dict(k, seed=np.random.default_rng([self.entropy, len(self.calls)]))
            out = fn(*a, **k)
            rec = {'fn': name, 'args': a, 'kwargs': k,
                   'out': np.array(out, dtype=float, copy=True) if isinstance(out, np.ndarray)
                   else out}
            self.calls.append(rec)
            return out
        return wrapped

    def __exit__(self, *exc):
        for n in self.NAMES:
            setattr(self.mod, n, self.orig[n])


class C23(Property):
    pid = 'C23'
    workers = 1          # set per tier in setup(): forking costs more than it saves in the quick tier
    tolerance = RTOL
    required_theorems = [
        'C23_levels_in_bounds', 'C23_levels_endpoints', 'C23_levels_evenly_spaced',
        'C23_levels_distinct', 'C23_levels_le_max', 'C23_levels_consistent', 'C23_pydoe_in_bounds',
        'C23_design_contract_iff', 'C23_strata_check_iff',
        'C23_pb_values', 'C23_bb_values', 'C23_fullfact_bijection', 'C23_fullfact_row',
        'C23_fullfact_digit', 'C23_fullfactorial_cover', 'C23_lhs_in_bounds',
        'C23_uniform_in_bounds', 'C23_lhs_stratum_iff', 'C23_lhs_strata', 'C23_lhs_design_strata',
        'C23_lhs_design_in_bounds', 'C23_applied_exact', 'C23_applied_full_slice']
    rule = ("cases: 1-3 design variables on IndepVarComp outputs of size 1-4 (full variable, index "
            "list incl. negative indices, or slice; design-variable size 1-3), bounds scalar / array / "
            "mixed / one-sided or absent (INF_BOUND) / degenerate lower == upper, dyadic and "
            "non-dyadic values, optional units (cm->m, km->m, degF->degC, inch->ft) and "
            "scaler/adder/ref/ref0; generator in {FullFactorial, PlackettBurman, BoxBehnken, "
            "GeneralizedSubset, LatinHypercube (all criteria), Uniform, List, CSV} of "
            "openmdao.drivers.doe_generators called as DOEDriver does (gen(driver._designvars, "
            "model)), twice with a fresh instance and twice on the same instance, and run through a "
            "real DOEDriver on a model whose component records every evaluation (a fraction also "
            "with a SqliteRecorder); plus the AnalysisGenerator twins of openmdao.drivers.sampling "
            "at generator level and a small malformed stream (error branches). Non-trivial: the "
            "generator yielded at least one case with a finite-width variable or was run through the "
            "driver; distinct by canonical case encoding.")
    assumptions = [
        "pyDOE designs (fullfact, lhs, pbdesign, bbdesign, gsd) are third-party parameters with a "
        "contract (fullfact = mixed-radix enumeration of its argument; lhs = one sample per stratum "
        "and column; coded PB/BB/GSD entries in range); the contract is validated on every case and "
        "a failure is an infrastructure error, not a violation",
        "numpy.random.uniform(lo, hi) == lo + (hi - lo) * random_sample() on the legacy global "
        "RandomState (validated at start of each run)",
        "unit conversion factors/offsets are taken from openmdao.utils.units.unit_conversion "
        "(property C06); index resolution of the design variable's `indices` from NumPy (property C05)",
        "values produced by inexact float arithmetic (non-dyadic linspace steps, LHS/Uniform maps, "
        "unit conversion) are compared with relative tolerance 1e-12, everything else exactly",
    ]
    level_text = ("Level tables (numpy.linspace with exact endpoints, int/dict/default level counts, "
                  "NaN-padded table), the per-variable offset walk, pyDOE's full-factorial order as a "
                  "mixed-radix enumeration, the PB/BB index shifts, the LHS and Uniform affine maps and "
                  "Driver._set_design_var (fancy assignment then unit conversion) are modelled in Lean; "
                  "bounds, product coverage (bijection, for any number of factors), strata "
                  "preservation and exact application are proved for all inputs over any linearly "
                  "ordered field; the model is tied to the real generators and DOEDriver by "
                  "differential runs, the pyDOE designs being validated contracts.")
    level_note = ("Trusted: Lean kernel + standard axioms; the Python harness; pyDOE designs and NumPy's "
                  "random streams (contracts checked per case); unit table and indexer (C06/C05). "
                  "Modelled, not verified: float rounding (tolerance 1e-12 where inexact); seeding / "
                  "reproducibility and List/CSV pass-through are differential + direct oracle only.")
    technique = "Lean 4 proof (induction on the mixed-radix enumeration, ordered-field algebra) + differential correspondence"
    trusted_extra = ["pydoe 1.5 designs (validated per case)", "numpy.random legacy stream (validated per run)",
                     "openmdao.utils.units.unit_conversion, NumPy index resolution"]

    # -- set-up ------------------------------------------------------------------------------------
    def setup(self, tier):
        warnings.simplefilter('ignore')
        self.workers = 1 if tier == 'quick' else 8
        import openmdao.api  # noqa: F401  (imported before the worker pool forks)
        import openmdao.drivers.sampling.pyDOE_generators  # noqa: F401
        import openmdao.drivers.sampling.uniform_generator  # noqa: F401
        lo = np.array([0.25, -3.0, 1e3])
        hi = np.array([0.75, 5.0, 1e3 + 1])
        np.random.seed(12345)
        a = np.random.uniform(lo, hi)
        np.random.seed(12345)
        b = lo + (hi - lo) * np.random.random_sample(3)
        if not np.array_equal(a, b):
            raise common.Infra('numpy.random.uniform is not lo + (hi-lo)*random_sample() any more')
        import pydoe
        if not np.array_equal(pydoe.fullfact([2, 3]), np.array(self.py_fullfact([2, 3]), dtype=float)):
            raise common.Infra('pydoe.fullfact order changed')

    @staticmethod
    def py_fullfact(levels):
        """Reference for the third-party contract: mixed-radix digits, first factor fastest."""
        n = 1
        for l in levels:
            n *= int(l)
        rows = []
        for r in range(n):
            row, q = [], r
            for l in levels:
                row.append(q % int(l))
                q //= int(l)
            rows.append(row)
        return rows

    # -- case generation ---------------------------------------------------------------------------
    def gen_dvs(self, rng, gen, api):
        ndv = rng.choice([1, 1, 2, 2, 3])
        names = rng.sample(['x', 'y', 'z', 'w'], ndv)
        dvs = []
        for name in names:
            src_size = rng.choice([1, 2, 3, 3, 4])
            form = rng.choice(['full', 'full', 'list', 'list', 'slice']) if api == 'doe' else 'full'
            if form == 'full':
                indices = None
                size = min(src_size, 3)
                src_size = size
            elif form == 'list':
                size = rng.randint(1, min(3, src_size))
                idx = rng.sample(range(src_size), size)
                indices = [i - src_size if rng.random() < 0.3 else i for i in idx]
            else:
                a = rng.randint(0, src_size - 1)
                step = rng.choice([1, 1, 2])
                b = rng.randint(a + 1, src_size)
                if len(range(a, b, step)) > 3:
                    b = a + 3 * step
                indices = {'slice': [a, b, step]}
                size = len(range(*slice(a, b, step).indices(src_size)))
            pool = DY if rng.random() < 0.75 else DY + ODD * 4

            def one():
                lo = rng.choice(pool)
                r = rng.random()
                if r < 0.08:
                    return lo, lo                      # degenerate
                return lo, lo + abs(rng.choice(pool)) + Fraction(rng.choice([1, 1, 2, 8]), 4)
            shape = rng.choice(['scalar', 'scalar', 'array', 'array', 'mixed', 'absent'])
            if api == 'sampling' and shape in ('mixed', 'absent'):
                shape = 'array'
            if shape == 'scalar':
                lo, hi = one()
                lower, upper = rat(float(lo)), rat(float(hi))
                if api == 'sampling' and size > 1:      # sampling twins size variables by the bounds
                    lower, upper = [lower] * size, [upper] * size
            elif shape == 'array':
                prs = [one() for _ in range(size)]
                lower = [rat(float(p[0])) for p in prs]
                upper = [rat(float(p[1])) for p in prs]
            elif shape == 'mixed':
                lo = rng.choice(pool)
                lower = rat(float(lo))
                upper = [rat(float(lo + abs(rng.choice(pool)) + Fraction(1, 4))) for _ in range(size)]
                if rng.random() < 0.5:
                    hi = max(unrat(u) for u in upper)
                    lower = [rat(float(hi - abs(rng.choice(pool)) - 1)) for _ in range(size)]
                    upper = rat(float(hi))
            else:
                lo, hi = one()
                which = rng.choice(['lower', 'upper', 'both'])
                lower = None if which in ('lower', 'both') else rat(float(lo))
                upper = None if which in ('upper', 'both') else rat(float(hi))
            dvu, srcu = rng.choice(UNITS) if api == 'doe' else (None, None)
            dv = {'name': name, 'src_size': src_size, 'indices': indices, 'size': size,
                  'lower': lower, 'upper': upper, 'units': dvu, 'src_units': srcu, 'scaling': {}}
            if api == 'doe' and rng.random() < 0.3:
                kind = rng.choice(['scaler', 'adder', 'scaler_adder', 'ref', 'ref_ref0'])
                sc = {}
                if 'scaler' in kind:
                    sc['scaler'] = rng.choice([0.5, 2.0, -2.0, 4.0])
                if 'adder' in kind:
                    sc['adder'] = rng.choice([1.0, -3.0, 0.25])
                if kind == 'ref':
                    sc['ref'] = rng.choice([2.0, 4.0, -1.0])
                if kind == 'ref_ref0':
                    sc['ref0'] = rng.choice([1.0, -2.0])
                    sc['ref'] = sc['ref0'] + rng.choice([1.0, 2.0, -4.0])
                dv['scaling'] = sc
            dvs.append(dv)
        return dvs

    def gen_opts(self, rng, gen, dvs, tier):
        total = sum(d['size'] for d in dvs)
        o = {}
        if gen == 'FullFactorial':
            cap = 81 if tier == 'quick' else 400
            for _ in range(50):
                if rng.random() < 0.45:
                    lv = rng.choice([1, 2, 2, 3, 3, 4, 5])
                else:
                    lv = {}
                    for d in dvs:
                        if rng.random() < 0.6:
                            lv[d['name']] = rng.choice([1, 2, 3, 4, 5])
                    if rng.random() < 0.5:
                        lv['default'] = rng.choice([1, 2, 3, 4])
                    if rng.random() < 0.15:
                        lv['not_a_desvar'] = rng.choice([2, 6])
                    if not lv:
                        lv['default'] = 3
                n = 1
                for d in dvs:
                    n *= dv_levels(lv, d['name']) ** d['size']
                if n <= cap:
                    break
            else:
                lv = 2
            o['levels'] = lv
        elif gen == 'GeneralizedSubset':
            if rng.random() < 0.5:
                lv = rng.choice([2, 3, 4])
            else:
                lv = {d['name']: rng.choice([2, 3, 4]) for d in dvs if rng.random() < 0.7}
                if rng.random() < 0.5 or not lv:
                    lv['default'] = rng.choice([2, 3])
            o['levels'] = lv
            o['reduction'] = rng.choice([2, 2, 3])
            o['n'] = 1
        elif gen == 'BoxBehnken':
            o['center'] = rng.choice([None, None, 0, 1, 2, 3])
        elif gen == 'LatinHypercube':
            o['samples'] = rng.choice([None, 1, 2, 3, 4, 5, 6, 8])
            o['criterion'] = rng.choice(CRITERIA)
            o['iterations'] = rng.choice([1, 2, 5])
            o['seed'] = rng.choice([None, rng.randint(0, 10 ** 6), rng.randint(0, 50)])
            o['entropy'] = rng.randint(0, 10 ** 9)
            n = o['samples'] if o['samples'] is not None else total
            # pyDOE itself fails on these (empty pdist / corrcoef of one column): third-party limits
            if o['criterion'] in ('maximin', 'm', 'centermaximin', 'cm') and n < 2:
                o['samples'] = 2 if total < 2 else None
            if o['criterion'] in ('correlation', 'corr') and (total < 2 or n < 2):
                o['criterion'] = None
        elif gen == 'Uniform':
            o['num_samples'] = rng.choice([1, 2, 3, 5, 8])
            o['seed'] = rng.choice([None, rng.randint(0, 10 ** 6), rng.randint(0, 50)])
            o['global_seed'] = rng.randint(0, 10 ** 6)
        return o

    def gen_data(self, rng, dvs):
        """User-supplied cases for the List / CSV generators, inside the bounds."""
        ncase = rng.choice([1, 2, 3, 5])
        data = []
        for _ in range(ncase):
            case = []
            order = list(dvs)
            rng.shuffle(order)
            for d in order:
                lo = bound_list(d['lower'], d['size'], -8)
                hi = bound_list(d['upper'], d['size'], 8)
                vals = []
                for l, h in zip(lo, hi):
                    t = Fraction(rng.randint(0, 8), 8)
                    vals.append(rat(float(l + t * (h - l))))
                case.append([d['name'], vals])
            data.append(case)
        return data

    def cases(self, rng, tier):
        n_cases = 330 if tier == 'quick' else 7000
        kinds = (['FullFactorial'] * 6 + ['LatinHypercube'] * 5 + ['Uniform'] * 2 + ['PlackettBurman'] * 2
                 + ['BoxBehnken'] * 2 + ['GeneralizedSubset'] * 2 + ['List'] * 2 + ['Csv'] * 1)
        for k in range(n_cases):
            r = rng.random()
            if r < 0.05:
                yield self.malformed(rng)
                continue
            gen = rng.choice(kinds)
            api = 'doe'
            if gen not in ('List', 'Csv') and rng.random() < 0.12:
                api = 'sampling'
            for _ in range(30):
                dvs = self.gen_dvs(rng, gen, api)
                total = sum(d['size'] for d in dvs)
                if gen == 'BoxBehnken' and not (3 <= total <= 6):
                    continue
                if gen == 'PlackettBurman' and total > 7:
                    continue
                if gen == 'GeneralizedSubset' and total < 2:
                    continue
                break
            else:
                gen = 'FullFactorial'
            case = {'gen': gen, 'api': api, 'dvs': dvs, 'opts': self.gen_opts(rng, gen, dvs, tier),
                    'run': api == 'doe' and rng.random() < 0.6,
                    'record': False}
            if gen in ('List', 'Csv'):
                case['data'] = self.gen_data(rng, dvs)
                case['run'] = True
                if gen == 'Csv':
                    # the CSV header is the design-variable order of every row
                    order = [n for n, _ in case['data'][0]]
                    case['data'] = [sorted(c, key=lambda t: order.index(t[0])) for c in case['data']]
            if case['run'] and rng.random() < 0.05:
                case['record'] = True
            yield case

    def malformed(self, rng):
        kind = rng.choice(['bb_small', 'levels_float', 'list_badname', 'list_notlist', 'lhs_badcrit',
                           'csv_badname'])
        dv = {'name': 'x', 'src_size': 2, 'indices': None, 'size': 2, 'lower': rat(0.0),
              'upper': rat(1.0), 'units': None, 'src_units': None, 'scaling': {}}
        case = {'gen': 'FullFactorial', 'api': 'doe', 'dvs': [dv], 'opts': {}, 'run': False,
                'record': False, 'malformed': kind}
        if kind == 'bb_small':
            case['gen'] = 'BoxBehnken'
            case['opts'] = {'center': None}
            case['expect_error'] = 'RuntimeError'
        elif kind == 'levels_float':
            case['opts'] = {'levels': 2.5}
            case['expect_error'] = 'ValueError'
        elif kind == 'list_badname':
            case['gen'] = 'List'
            case['data'] = [[['x', [rat(0.5), rat(0.5)]]], [['nope', [rat(0.5), rat(0.5)]]]]
            case['expect_error'] = 'RuntimeError'
        elif kind == 'list_notlist':
            case['gen'] = 'List'
            case['data'] = 'notalist'
            case['expect_error'] = 'RuntimeError'
        elif kind == 'csv_badname':
            case['gen'] = 'Csv'
            case['data'] = [[['nope', [rat(0.5), rat(0.5)]]]]
            case['expect_error'] = 'RuntimeError'
        else:
            case['gen'] = 'LatinHypercube'
            case['opts'] = {'samples': 3, 'criterion': 'bogus', 'iterations': 1, 'seed': 1}
            case['expect_error'] = 'ValueError'
        return case

    # -- real code ---------------------------------------------------------------------------------
    def make_gen(self, case, fname=None):
        gen, o = case['gen'], case['opts']
        if case['api'] == 'sampling':
            import openmdao.drivers.sampling.pyDOE_generators as sp
            import openmdao.drivers.sampling.uniform_generator as su
            vd = {}
            for d in case['dvs']:
                vd[d['name']] = {'lower': np_bound(d['lower']), 'upper': np_bound(d['upper'])}
            if gen == 'FullFactorial':
                return sp.FullFactorialGenerator(vd, levels=o['levels'])
            if gen == 'PlackettBurman':
                return sp.PlackettBurmanGenerator(vd)
            if gen == 'BoxBehnken':
                return sp.BoxBehnkenGenerator(vd, center=o['center'])
            if gen == 'GeneralizedSubset':
                return sp.GeneralizedSubsetGenerator(vd, levels=o['levels'], reduction=o['reduction'],
                                                     n=o['n'])
            if gen == 'LatinHypercube':
                return sp.LatinHypercubeGenerator(vd, samples=o['samples'], criterion=o['criterion'],
                                                  iterations=o['iterations'], seed=o['seed'])
            if gen == 'Uniform':
                return su.UniformGenerator(vd, num_samples=o['num_samples'], seed=o['seed'])
            raise common.Infra('no sampling twin for ' + gen)
        import openmdao.api as om
        if gen == 'FullFactorial':
            return om.FullFactorialGenerator(levels=o['levels'])
        if gen == 'PlackettBurman':
            return om.PlackettBurmanGenerator()
        if gen == 'BoxBehnken':
            return om.BoxBehnkenGenerator(center=o['center'])
        if gen == 'GeneralizedSubset':
            return om.GeneralizedSubsetGenerator(levels=o['levels'], reduction=o['reduction'], n=o['n'])
        if gen == 'LatinHypercube':
            return om.LatinHypercubeGenerator(samples=o['samples'], criterion=o['criterion'],
                                              iterations=o['iterations'], seed=o['seed'])
        if gen == 'Uniform':
            return om.UniformGenerator(num_samples=o['num_samples'], seed=o['seed'])
        if gen == 'List':
            data = case['data']
            if isinstance(data, list):
                data = [[(n, np.array([fl(v) for v in vals])) for n, vals in c] for c in data]
            return om.ListGenerator(data)
        if gen == 'Csv':
            return om.CSVGenerator(fname)
        raise common.Infra('unknown generator ' + gen)

    def build(self, case, tee):
        import openmdao.api as om
        seen = []
        dvs = case['dvs']

        class Rec(om.ExplicitComponent):
            def setup(self):
                for d in dvs:
                    self.add_input(d['name'], np.zeros(d['src_size']), units=d['src_units'])
                self.add_output('f', 0.0)

            def compute(self, inputs, outputs):
                seen.append({d['name']: np.array(inputs[d['name']], dtype=float).ravel().copy()
                             for d in dvs})
                outputs['f'] = sum(float(np.sum(inputs[d['name']])) for d in dvs)

        p = om.Problem()
        ivc = p.model.add_subsystem('ivc', om.IndepVarComp(), promotes=['*'])
        init = {}
        for k, d in enumerate(dvs):
            init[d['name']] = np.array([100.0 * (k + 1) + i for i in range(d['src_size'])])
            ivc.add_output(d['name'], init[d['name']].copy(), units=d['src_units'])
        p.model.add_subsystem('c', Rec(), promotes=['*'])
        for d in dvs:
            kw = dict(d['scaling'])
            if d['lower'] is not None:
                kw['lower'] = np_bound(d['lower'])
            if d['upper'] is not None:
                kw['upper'] = np_bound(d['upper'])
            if d['indices'] is not None:
                kw['indices'] = py_idx(d['indices'])
            if d['units'] is not None:
                kw['units'] = d['units']
            p.model.add_design_var(d['name'], **kw)
        p.model.add_objective('f')
        if tee is not None:
            p.driver = om.DOEDriver(tee)
            if case.get('record'):
                p.driver.add_recorder(om.SqliteRecorder('c23_cases.sql'))
        p.setup()
        p.final_setup()
        return p, seen, init

    @staticmethod
    def canon_cases(cases, api):
        out = []
        for c in cases:
            if api == 'sampling':
                out.append([[n, frats(m['val'])] for n, m in c.items()])
            else:
                out.append([[n, frats(v)] for n, v in c])
        return out

    def write_csv(self, case, fname):
        data = case['data']
        with open(fname, 'w') as f:
            f.write(','.join(n for n, _ in data[0]) + '\n')
            for c in data:
                cells = []
                for _, vals in c:
                    cells.append('[' + ' '.join(repr(fl(v)) for v in vals) + ']')
                f.write(','.join(cells) + '\n')

    def run_impl(self, case):
        return common.in_tempdir(lambda: self._run_impl(case))

    def _run_impl(self, case):
        import openmdao.api as om
        from openmdao.drivers.doe_generators import DOEGenerator
        from openmdao.utils.units import unit_conversion
        warnings.simplefilter('ignore')
        res = {}
        stage = 'construct'
        try:
            with _Capture(case['opts'].get('entropy', 0)) as cap:
                fname = None
                if case['gen'] == 'Csv':
                    fname = 'c23_cases.csv'
                    self.write_csv(case, fname)
                o = case['opts']

                def call(gen, dvmeta, model):
                    if case['gen'] == 'Uniform' and o.get('seed') is None:
                        np.random.seed(o['global_seed'])
                    n0 = len(cap.calls)
                    if case['api'] == 'sampling':
                        out = list(gen)
                    else:
                        out = list(gen(dvmeta, model))
                    return self.canon_cases(out, case['api']), cap.calls[n0:]

                if case['api'] == 'sampling':
                    if case['gen'] == 'Uniform' and o.get('seed') is None:
                        np.random.seed(o['global_seed'])
                    g1 = self.make_gen(case)
                    calls1 = list(cap.calls)
                    stage = 'generate'
                    out1, _ = call(g1, None, None)
                    if case['gen'] == 'Uniform' and o.get('seed') is None:
                        np.random.seed(o['global_seed'])
                    n0 = len(cap.calls)
                    g2 = self.make_gen(case)
                    out2, _ = call(g2, None, None)
                    calls2 = cap.calls[n0:]
                    g1._setup()         # re-arming of the same instance, as AnalysisDriver does
                    if case['gen'] == 'Uniform' and o.get('seed') is None:
                        np.random.seed(o['global_seed'])
                    out3 = self.canon_cases(list(g1), 'sampling')
                    res['meta'] = [{'name': d['name'], 'size': d['size'],
                                    'lower': frats(np_bound(d['lower']) * np.ones(d['size'])),
                                    'upper': frats(np_bound(d['upper']) * np.ones(d['size'])),
                                    'lower_is_array': isinstance(d['lower'], list),
                                    'upper_is_array': isinstance(d['upper'], list)}
                                   for d in case['dvs']]
                else:
                    tee = None
                    if case['run']:
                        # the generator the driver will run, wrapped to record what it yields
                        class Tee(DOEGenerator):
                            def __init__(self, inner):
                                super().__init__()
                                self.inner = inner
                                self.cases = []

                            def __call__(self, design_vars, model=None):
                                for c in self.inner(design_vars, model):
                                    self.cases.append([(n, np.array(v, dtype=float, copy=True))
                                                       for n, v in c])
                                    yield c
                        tee = Tee(self.make_gen(case, fname))
                    p, seen, init = self.build(case, tee)
                    dvmeta = p.driver._designvars
                    res['meta'] = []
                    for name, m in dvmeta.items():
                        size = m['size']
                        res['meta'].append({
                            'name': name, 'size': int(size),
                            'lower': frats(np.asarray(m['lower'], dtype=float) * np.ones(size)),
                            'upper': frats(np.asarray(m['upper'], dtype=float) * np.ones(size)),
                            'lower_is_array': isinstance(m['lower'], np.ndarray),
                            'upper_is_array': isinstance(m['upper'], np.ndarray)})
                    g1 = self.make_gen(case, fname)
                    if case['gen'] != 'Csv' and len(case['dvs']) % 2 == 1 or case.get('reuse'):
                        # the same generator instance used before for another set of design
                        # variables (other sizes): nothing of that call may survive into the next
                        alt = {}
                        for name, m in dvmeta.items():
                            size = int(m['size']) + 1
                            alt[name + '_other'] = dict(
                                m, size=size, global_size=size,
                                lower=np.resize(np.asarray(m['lower'], dtype=float), size),
                                upper=np.resize(np.asarray(m['upper'], dtype=float), size))
                        try:
                            n_before = len(cap.calls)
                            list(g1(alt, p.model))
                            del cap.calls[n_before:]
                            res['reused_instance'] = True
                        except Exception as e:
                            res['reuse_error'] = type(e).__name__
                    stage = 'generate'
                    out1, calls1 = call(g1, dvmeta, p.model)
                    g2 = self.make_gen(case, fname)
                    out2, calls2 = call(g2, dvmeta, p.model)
                    out3, _ = call(g1, dvmeta, p.model)
                res['out'] = out1
                res['repro_fresh'] = out2 == out1
                res['repro_same'] = out3 == out1
                res['ncalls'] = len(calls1)
                if calls1:
                    c = calls1[-1]
                    res['design_fn'] = c['fn']
                    if isinstance(c['out'], np.ndarray):
                        res['design'] = [frats(r) for r in c['out']]
                    else:
                        res['design'] = None
                    if c['fn'] in ('fullfact', 'gsd'):
                        lv = c['args'][0] if c['args'] else c['kwargs'].get('levels')
                        res['design_levels'] = [int(x) for x in lv]
                    if c['fn'] in ('pbdesign', 'bbdesign', 'lhs'):
                        res['design_n'] = int(c['args'][0])
                    if c['fn'] == 'lhs':
                        res['design_samples'] = c['kwargs'].get('samples')
                if case['gen'] == 'Uniform':
                    # the unit draws behind numpy.random.uniform, re-derived from the same seed
                    np.random.seed(o['seed'] if o.get('seed') is not None else o['global_seed'])
                    us = []
                    for _ in range(o['num_samples']):
                        row = []
                        for d in case['dvs']:
                            row.extend(np.random.random_sample(d['size']).tolist())
                        us.append([rat(u) for u in row])
                    res['design'] = us
                    res['design_fn'] = 'random_sample'

                if case['run']:
                    stage = 'run'

                    if case['gen'] == 'Uniform' and o.get('seed') is None:
                        np.random.seed(o['global_seed'])
                    seen.clear()
                    failed = p.run_driver()
                    run = {'cases': self.canon_cases(tee.cases, 'doe'),
                           'seen': [{n: frats(v) for n, v in s.items()} for s in seen],
                           'init': {n: frats(v) for n, v in init.items()},
                           'final': {d['name']: frats(p.get_val(d['name'], units=d['src_units']))
                                     for d in case['dvs']},
                           'iter_count': int(p.driver.iter_count)}
                    conv = {}
                    idx = {}
                    for d in case['dvs']:
                        if d['units'] and d['src_units']:
                            f, off = unit_conversion(d['units'], d['src_units'])
                            conv[d['name']] = [rat(float(f)), rat(float(off))]
                        else:
                            conv[d['name']] = None
                        idx[d['name']] = resolve_idx(d['indices'], d['src_size'])
                    run['conv'] = conv
                    run['idx'] = idx
                    if case.get('record'):
                        p.cleanup()
                        cr = om.CaseReader(p.get_outputs_dir() / 'c23_cases.sql')
                        rec = []
                        for cid in cr.list_cases('driver', out_stream=None):
                            dv = cr.get_case(cid).get_design_vars(scaled=False)
                            rec.append({n: frats(v) for n, v in dv.items()})
                        run['recorded'] = rec
                    res['run'] = run
        except Exception as e:      # error branches are results
            res['error'] = type(e).__name__
            res['stage'] = stage
            res['msg'] = str(e)[:300]
            import traceback
            tb = traceback.extract_tb(e.__traceback__)
            res['in_pydoe'] = any('/pydoe/' in fr.filename for fr in tb[-3:])
        return res

    # -- direct oracle (independent of the Lean model) ---------------------------------------------
    def declared(self, case):
        """name -> (size, lower list, upper list) straight from the case (what the user declared)."""
        out = {}
        for d in case['dvs']:
            out[d['name']] = (d['size'], bound_list(d['lower'], d['size'], -INF_BOUND),
                              bound_list(d['upper'], d['size'], INF_BOUND))
        return out

    def oracle(self, case, impl):
        if case.get('malformed'):
            if impl.get('error') != case['expect_error']:
                return {'what': 'malformed input %s: expected %s, got %s' % (
                    case['malformed'], case['expect_error'], impl.get('error', 'no error'))}
            return None
        if 'error' in impl:
            if impl.get('in_pydoe'):
                return None         # third-party failure on this configuration, nothing generated
            return {'what': '%s raised %s at stage %s' % (case['gen'], impl['error'], impl['stage']),
                    'msg': impl.get('msg')}
        gen, o = case['gen'], case['opts']
        dec = self.declared(case)
        names = [d['name'] for d in case['dvs']]
        out = impl['out']
        strict = gen in LEVEL_GENS or gen in ('List', 'Csv')
        # shape and bounds of every case
        for k, c in enumerate(out):
            if sorted(n for n, _ in c) != sorted(names):
                return {'what': 'case %d does not set every design variable exactly once' % k,
                        'got': [n for n, _ in c]}
            for n, vals in c:
                size, lo, hi = dec[n]
                if len(vals) != size:
                    return {'what': 'case %d: %s has %d values, size %d' % (k, n, len(vals), size)}
                for j, v in enumerate(vals):
                    if not isnum(v):
                        return {'what': 'generated value is %s' % v, 'case': k, 'var': n, 'elem': j}
                    x = unrat(v)
                    tol = 0 if strict else Fraction(RTOL) * max(1, abs(lo[j]), abs(hi[j]))
                    if x < lo[j] - tol or x > hi[j] + tol:
                        return {'what': 'generated value outside its bounds', 'case': k, 'var': n,
                                'elem': j, 'value': v, 'lower': rat(lo[j]), 'upper': rat(hi[j])}
        flat_lo = [b for n in names for b in dec[n][1]]
        flat_hi = [b for n in names for b in dec[n][2]]

        def flat(c):
            d = dict((n, v) for n, v in c)
            return [unrat(x) for n in names for x in d[n]]
        rows = [flat(c) for c in out]
        if gen in LEVEL_GENS:
            if gen == 'PlackettBurman':
                nl = [2] * len(flat_lo)
            elif gen == 'BoxBehnken':
                nl = [3] * len(flat_lo)
            else:
                nl = [dv_levels(o['levels'], n) for n in names for _ in range(dec[n][0])]
            sets = []
            for l, h, n in zip(flat_lo, flat_hi, nl):
                sets.append([l] if n == 1 else [l + (h - l) * Fraction(k, n - 1) for k in range(n)])
            qrows = []
            for k, r in enumerate(rows):
                q = []
                for j, x in enumerate(r):
                    best = min(range(len(sets[j])), key=lambda t: abs(sets[j][t] - x))
                    lv = sets[j][best]
                    exact_end = (lv == flat_lo[j] or lv == flat_hi[j])
                    if (exact_end and x != lv) or not close(x, lv, max(abs(flat_lo[j]), abs(flat_hi[j]))):
                        return {'what': 'generated value is not one of the requested levels',
                                'case': k, 'elem': j, 'value': rat(x), 'levels': [rat(s) for s in sets[j]]}
                    q.append(lv)
                qrows.append(tuple(q))
            if gen != 'FullFactorial' and impl.get('design') is not None:
                # documented coding of the third-party design: PB -1/+1 -> lower/upper,
                # BB -1/0/+1 -> lower/middle/upper, GSD k -> k-th level
                shift = {'PlackettBurman': None, 'BoxBehnken': 1, 'GeneralizedSubset': 0}[gen]
                if len(impl['design']) != len(qrows):
                    return {'what': '%s yields %d cases for a design of %d runs' % (
                        gen, len(qrows), len(impl['design']))}
                for k, (coded, q) in enumerate(zip(impl['design'], qrows)):
                    if len(coded) != len(sets):
                        return {'what': '%s design has %d factors for %d design-variable entries' % (
                            gen, len(coded), len(sets)), 'case': k}
                    for j, cd in enumerate(coded):
                        ci = int(unrat(cd))
                        li = (0 if ci < 0 else 1) if shift is None else ci + shift
                        if not (0 <= li < len(sets[j])) or q[j] != sets[j][li]:
                            return {'what': '%s case does not take the level coded by the design' % gen,
                                    'case': k, 'elem': j, 'coded': ci, 'value': rat(q[j])}
            if gen == 'FullFactorial':
                want = Counter(itertools.product(*sets))
                if Counter(qrows) != want:
                    return {'what': 'full-factorial cases are not exactly the product of the requested levels',
                            'n_cases': len(qrows), 'n_product': sum(want.values()),
                            'missing': len(want - Counter(qrows)), 'extra': len(Counter(qrows) - want)}
        if gen == 'LatinHypercube':
            n = o['samples'] if o['samples'] is not None else len(flat_lo)
            if len(rows) != n:
                return {'what': 'LHS yielded %d cases for %d samples' % (len(rows), n)}
            for j in range(len(flat_lo)):
                l, h = flat_lo[j], flat_hi[j]
                col = sorted(r[j] for r in rows)
                w = (h - l) / n
                tol = Fraction(RTOL) * max(1, abs(l), abs(h))
                for i, x in enumerate(col):
                    if x < l + i * w - tol or x > l + (i + 1) * w + tol:
                        return {'what': 'LHS column does not place one sample in each stratum',
                                'elem': j, 'sorted_col': [rat(c) for c in col], 'lower': rat(l),
                                'upper': rat(h), 'samples': n}
        if gen == 'Uniform' and len(rows) != o['num_samples']:
            return {'what': 'Uniform yielded %d cases for num_samples=%d' % (len(rows), o['num_samples'])}
        if gen in ('List', 'Csv'):
            if out != [[[n, [rat(fl(v)) for v in vals]] for n, vals in c] for c in case['data']]:
                return {'what': '%s generator did not pass the supplied cases through' % gen}
        # reproducibility
        seeded = gen in LEVEL_GENS or gen in ('List', 'Csv') or o.get('seed') is not None
        if seeded and not impl['repro_fresh']:
            return {'what': 'two generators with identical arguments (seed) yield different cases'}
        if seeded and not impl['repro_same']:
            return {'what': 'calling the same seeded generator twice yields different cases'}
        # the model is evaluated at exactly the generated values
        if 'run' in impl:
            run = impl['run']
            if seeded and run['cases'] != out:
                return {'what': 'cases generated inside DOEDriver.run differ from the generator called directly'}
            if len(run['seen']) != len(run['cases']) or run['iter_count'] != len(run['cases']):
                return {'what': 'DOEDriver evaluated the model %d times for %d cases (iter_count %d)' % (
                    len(run['seen']), len(run['cases']), run['iter_count'])}
            cur = {n: [unrat(x) for x in v] for n, v in run['init'].items()}
            for k, (c, s) in enumerate(zip(run['cases'], run['seen'])):
                for n, vals in c:
                    idx = run['idx'][n]
                    if idx is None:
                        idx = list(range(len(cur[n])))
                    cv = run['conv'][n]
                    for i, v in zip(idx, vals):
                        x = unrat(v)
                        if cv is not None:
                            x = (x + unrat(cv[1])) * unrat(cv[0])
                        cur[n][i] = x
                for n in names:
                    got = [unrat(x) if isnum(x) else None for x in s[n]]
                    inexact = run['conv'][n] is not None
                    for i, (g, e) in enumerate(zip(got, cur[n])):
                        if g is None or (g != e and not (inexact and close(g, e))):
                            return {'what': 'model evaluated at a value different from the generated one',
                                    'case': k, 'var': n, 'elem': i, 'saw': s[n][i], 'expected': rat(e)}
                    cur[n] = [g for g in got]
                if 'recorded' in run:
                    rec = run['recorded']
                    if len(rec) != len(run['cases']):
                        return {'what': 'recorder holds %d driver cases for %d generated' % (
                            len(rec), len(run['cases']))}
                    # the recorder reports design variables in the design variable's own units
                    for n, vals in c:
                        want = [unrat(v) for v in vals]
                        got = [unrat(x) for x in rec[k][n]]
                        cv = run['conv'][n]
                        scale = abs(unrat(cv[1])) if cv is not None else 1
                        if len(got) != len(want) or any(
                                not close(a, b, scale) for a, b in zip(got, want)):
                            return {'what': 'recorded design variable differs from the generated value',
                                    'case': k, 'var': n}
        return None

    def signature(self, case, impl, failure):
        return {'gen': case['gen'], 'api': case['api'], 'error': impl.get('error'),
                'what': failure.get('what', '')[:60],
                'degenerate': any(self._degenerate(d) for d in case['dvs']),
                'units': any(d['units'] for d in case['dvs'])}

    @staticmethod
    def _degenerate(d):
        lo = bound_list(d['lower'], d['size'], -INF_BOUND)
        hi = bound_list(d['upper'], d['size'], INF_BOUND)
        return any(a == b for a, b in zip(lo, hi))

    def nontrivial(self, case, impl):
        if case.get('malformed') or 'error' in impl:
            return False
        if not impl.get('out'):
            return False
        return True

    def bucket(self, case, impl):
        if case.get('malformed'):
            return ['malformed=' + case['malformed'], 'impl_error=%s' % impl.get('error')]
        b = ['gen=%s/%s' % (case['gen'], case['api']), 'n_dvs=%d' % len(case['dvs']),
             'total_size=%d' % sum(d['size'] for d in case['dvs'])]
        for d in case['dvs']:
            lo, hi = d['lower'], d['upper']
            if lo is None or hi is None:
                b.append('bounds=absent')
            elif isinstance(lo, list) != isinstance(hi, list):
                b.append('bounds=mixed')
            else:
                b.append('bounds=array' if isinstance(lo, list) else 'bounds=scalar')
            if self._degenerate(d):
                b.append('bounds=degenerate')
            b.append('indices=%s' % ('none' if d['indices'] is None else
                                     'slice' if isinstance(d['indices'], dict) else 'list'))
            if d['units']:
                b.append('units=%s->%s' % (d['units'], d['src_units']))
            if d['scaling']:
                b.append('scaling=' + '+'.join(sorted(d['scaling'])))
        o = case['opts']
        if 'levels' in o:
            b.append('levels=int' if isinstance(o['levels'], int) else
                     'levels=dict' + ('+default' if 'default' in o['levels'] else ''))
        if case['gen'] == 'LatinHypercube':
            b.append('criterion=%s' % o['criterion'])
            b.append('samples=%s' % ('default' if o['samples'] is None else 'given'))
        if 'seed' in o:
            b.append('seeded' if o['seed'] is not None else 'unseeded')
        if 'error' in impl:
            b.append('impl_error=%s%s' % (impl['error'], '(pydoe)' if impl.get('in_pydoe') else ''))
        else:
            b.append('n_cases=%s' % ('0' if not impl['out'] else '1-9' if len(impl['out']) < 10 else
                                     '10-99' if len(impl['out']) < 100 else '100+'))
            if 'run' in impl:
                b.append('driver_run' + ('+recorder' if 'recorded' in impl['run'] else ''))
        return b

    # -- Lean model --------------------------------------------------------------------------------
    MAX_APPLY = 16

    def model_dvs(self, impl):
        """Design variables as the generator received them (shape of the bounds included)."""
        dvs = []
        for m in impl['meta']:
            def b(key):
                return m[key] if m[key + '_is_array'] else m[key][0]
            dvs.append({'size': m['size'], 'lower': b('lower'), 'upper': b('upper')})
        return dvs

    @staticmethod
    def all_numeric(impl):
        def ok(cases):
            return all(isnum(v) for c in cases for _, vals in c for v in vals)
        if not ok(impl.get('out', [])):
            return False
        run = impl.get('run')
        if run is not None:
            if not ok(run['cases']):
                return False
            if not all(isnum(v) for s_ in run['seen'] for vals in s_.values() for v in vals):
                return False
        return True

    def check_contract(self, case, impl):
        """Third-party contracts, checked in Python on the captured design (Infra on failure)."""
        fn = impl.get('design_fn')
        des = impl.get('design')
        if fn in (None, 'random_sample'):
            return
        if des is None:
            raise common.Infra('pydoe.%s did not return an array' % fn)
        if fn == 'fullfact':
            want = self.py_fullfact(impl['design_levels'])
            if [[unrat(x) for x in r] for r in des] != [[Fraction(x) for x in r] for r in want]:
                raise common.Infra('pydoe.fullfact(%s) is not the mixed-radix enumeration' %
                                   impl['design_levels'])
        elif fn == 'gsd':
            for r in des:
                if len(r) != len(impl['design_levels']) or any(
                        not (unrat(x).denominator == 1 and 0 <= unrat(x) < l)
                        for x, l in zip(r, impl['design_levels'])):
                    raise common.Infra('pydoe.gsd returned an index outside its levels')
        elif fn == 'pbdesign':
            if any(unrat(x) not in (-1, 1) for r in des for x in r) or any(
                    len(r) != impl['design_n'] for r in des):
                raise common.Infra('pydoe.pbdesign coding changed')
        elif fn == 'bbdesign':
            if any(unrat(x) not in (-1, 0, 1) for r in des for x in r) or any(
                    len(r) != impl['design_n'] for r in des):
                raise common.Infra('pydoe.bbdesign coding changed')

    def model_requests(self, case, impl):
        if case.get('malformed') or 'error' in impl:
            return []
        if not self.all_numeric(impl):
            return []           # NaN/inf generated: reported by the oracle, nothing to compare
        self.check_contract(case, impl)
        gen, o = case['gen'], case['opts']
        reqs = []
        dvs = self.model_dvs(impl)
        names = [m['name'] for m in impl['meta']]
        if gen in LEVEL_GENS:
            kind = {'FullFactorial': 'ff', 'PlackettBurman': 'pb', 'BoxBehnken': 'bb',
                    'GeneralizedSubset': 'raw'}[gen]
            spec = o['levels'] if gen in ('FullFactorial', 'GeneralizedSubset') else (
                2 if gen == 'PlackettBurman' else 3)
            doe = [] if kind == 'ff' else [[int(unrat(x)) for x in r] for r in impl['design']]
            reqs.append({'op': 'pydoe', 'kind': kind, 'names': names, 'dvs': dvs, 'spec': spec,
                         'doe': doe})
        elif gen == 'LatinHypercube':
            reqs.append({'op': 'lhs', 'dvs': dvs, 'doe': impl['design']})
        elif gen == 'Uniform':
            reqs.append({'op': 'uniform', 'dvs': dvs, 'doe': impl['design']})
        if 'run' in impl:
            run = impl['run']
            cur = dict(run['init'])
            n = 0
            for c, s in zip(run['cases'], run['seen']):
                for name, vals in c:
                    if n >= self.MAX_APPLY:
                        break
                    reqs.append({'op': 'apply', 'arr': cur[name], 'idxs': run['idx'][name],
                                 'vals': vals, 'conv': run['conv'][name], '_var': name})
                    n += 1
                cur = dict(s)
        for r in reqs:
            r.pop('_var', None)
        return reqs

    @staticmethod
    def same(a, b):
        """wire values: equal as rationals, or within the rounding tolerance."""
        if not (isnum(a) and isnum(b)):
            return a == b, False
        x, y = unrat(a), unrat(b)
        if x == y:
            return True, True
        return close(x, y), False

    def compare(self, case, impl, answers):
        gen = case['gen']
        k = 0
        names = [m['name'] for m in impl['meta']]
        if gen in LEVEL_GENS or gen in ('LatinHypercube', 'Uniform'):
            a = answers[0]
            k = 1
            if not a.get('ok'):
                return 'model rejected the request: %s' % a
            if gen in ('FullFactorial', 'GeneralizedSubset'):
                if a['levels'] != impl['design_levels']:
                    return 'levels handed to pydoe %s, model _get_all_levels %s' % (
                        impl['design_levels'], a['levels'])
            if gen in LEVEL_GENS and not a['design_ok']:
                return 'index design invalid for the level table'
            if gen == 'FullFactorial':
                if [[Fraction(x) for x in r] for r in a['doe']] != \
                        [[unrat(x) for x in r] for r in impl['design']]:
                    return 'model full-factorial enumeration differs from the design used'
            if gen == 'LatinHypercube':
                if not all(a['unit_ok']):
                    raise common.Infra('pydoe.lhs design violates the one-sample-per-stratum contract')
                if any(s is False for s in a['strata_ok']):
                    return 'model output violates strata although the unit design satisfies them'
            mc = a['cases']
            ic = impl['out']
            if len(mc) != len(ic):
                return 'model yields %d cases, implementation %d' % (len(mc), len(ic))
            for r, (m, c) in enumerate(zip(mc, ic)):
                if [n for n, _ in c] != names:
                    return 'case %d: variable order %s, model %s' % (r, [n for n, _ in c], names)
                for (n, vals), mv in zip(c, m):
                    if len(vals) != len(mv):
                        return 'case %d %s: sizes differ' % (r, n)
                    for x, y in zip(vals, mv):
                        ok, _ = self.same(x, y)
                        if not ok:
                            return 'case %d %s: implementation %s, model %s' % (r, n, x, y)
        if 'run' in impl:
            run = impl['run']
            n = 0
            for c, s in zip(run['cases'], run['seen']):
                for name, vals in c:
                    if n >= self.MAX_APPLY:
                        break
                    a = answers[k]
                    k += 1
                    n += 1
                    if not a.get('ok'):
                        return 'model rejected apply request: %s' % a
                    for i, (x, y) in enumerate(zip(a['arr'], s[name])):
                        ok, _ = self.same(x, y)
                        if not ok:
                            return 'apply %s: model %s, component saw %s (element %d)' % (name, x, y, i)
        return None


PROP = C23()
