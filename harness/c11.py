"""C11 — assembled Jacobian formats represent the same linear operator.

A case is a small real OpenMDAO model built by the harness: an IndepVarComp plus 2-4 harness-defined
explicit / implicit components whose partials are declared in every supported format (dense, declared
rows/cols, diagonal, scipy coo/csr/csc) with small integer values.  Inputs are connected with
`src_indices` (repeated source elements, negative indices, non-flat indices into 2-D sources, two
levels connect + promotes) and unit conversions, so that duplicate (row, col) positions arise in the
assembled dr/do matrix the way they do in practice.  The same model is built four times
(`assembled_jac_type` dense / csc / csr and no assembled jacobian at all), driven through the same
history of `run_linearize` calls with changing partial values and `set_complex_step_mode` toggles, and
after every linearization the operator is observed: `todense()` of the assembled jacobian and
`run_apply_linear('fwd' | 'rev')` on integer seed vectors.

* direct oracle (no Lean): the four variants agree with each other and with the operator computed in
  exact `Fraction` arithmetic from the component partials, NumPy index semantics and a unit table.
* correspondence: the Lean driver executes the modelled build/update code paths of DenseMatrix,
  CSCMatrix, CSRMatrix, the COO data and the dictionary application on the same sub-jacobians and the
  same history; each modelled path is compared with its real counterpart.
"""
import random
import warnings
from fractions import Fraction

import numpy as np

from common import Property, rat, unrat, Infra, canon

# exact factors (source unit -> input unit); the implementation's factor is a double
UNIT_FACTOR = {
    ('m', 'cm'): Fraction(100), ('m', 'mm'): Fraction(1000), ('m', 'km'): Fraction(1, 1000),
    ('m', 'inch'): Fraction(10000, 254), ('km', 'm'): Fraction(1000), ('km', 'cm'): Fraction(100000),
    ('km', 'mm'): Fraction(1000000), ('km', 'inch'): Fraction(10000000, 254),
}
EXACT_UNITS = {('m', 'cm'), ('m', 'mm'), ('km', 'm'), ('km', 'cm'), ('km', 'mm')}
RTOL_UNITS = 1e-12
FORMATS = ['dense', 'rc', 'diag', 'coo', 'csr', 'csc']
VARIANTS = ['dense', 'csc', 'csr', 'dict']


def unit_factor(src_units, in_units):
    """Exact conversion factor d(input)/d(source), None when no conversion applies."""
    if not src_units or not in_units or src_units == in_units:
        return None
    return UNIT_FACTOR[(src_units, in_units)]


# ------------------------------------------------------------------------------------------------
# index specs (JSON) <-> python objects; reference semantics is NumPy

def py_idx(spec):
    t = spec['t']
    if t == 'int':
        return int(spec['v'])
    if t == 'list':
        return [int(x) for x in spec['v']]
    if t == 'list2':
        return np.array([[int(x) for x in r] for r in spec['v']], dtype=int)
    if t == 'slice':
        return slice(*spec['v'])
    if t == 'tup':
        return tuple(py_idx(s) for s in spec['v'])
    raise ValueError(t)


def level_positions(pos, lev):
    """Apply one src_indices level to the array `pos` of flat source positions (NumPy semantics)."""
    a = pos.ravel() if lev['flat'] else pos
    r = np.asarray(a[py_idx(lev['idx'])])
    return r


def chain_positions(shape, levels):
    """Flat source position of every element of the input, by NumPy indexing level by level."""
    pos = np.arange(int(np.prod(shape)), dtype=int).reshape(shape)
    for lev in levels:
        pos = level_positions(pos, lev)
    return pos


# ------------------------------------------------------------------------------------------------
# case generator

def _rand_index(rng, shape, want=None):
    """A random index spec into an array of `shape`; returns (spec, flat?)."""
    n = int(np.prod(shape))
    nd = len(shape)

    def ints(k, hi):
        # mostly valid, with repeats and negative entries
        out = []
        for _ in range(k):
            v = rng.randrange(hi)
            if rng.random() < 0.35:
                v -= hi
            out.append(v)
        if k > 1 and rng.random() < 0.5:
            out[rng.randrange(k)] = out[rng.randrange(k)]      # force a repeat
        return out

    k = want if want is not None else rng.choice([1, 2, 2, 3, 3, 4])
    r = rng.random()
    if nd == 1 or r < 0.4:
        # flat index list / slice / int into the flattened source
        q = rng.random()
        if q < 0.75:
            return {'t': 'list', 'v': ints(k, n)}, True
        if q < 0.92:
            a = rng.randrange(n)
            b = rng.randrange(a, n) + 1
            st = rng.choice([1, 1, 2])
            if rng.random() < 0.3:
                return {'t': 'slice', 'v': [b - 1, None if a == 0 else a - 1, -st]}, True
            return {'t': 'slice', 'v': [a, b, st]}, True
        v = rng.randrange(n)
        return {'t': 'int', 'v': v - n if rng.random() < 0.5 else v}, True
    # non-flat index into a 2-D source
    q = rng.random()
    if q < 0.35:
        return {'t': 'tup', 'v': [{'t': 'list', 'v': ints(k, shape[0])},
                                  {'t': 'list', 'v': ints(k, shape[1])}]}, False
    if q < 0.5:
        return {'t': 'tup', 'v': [{'t': 'slice', 'v': [None, None, None]},
                                  {'t': 'int', 'v': rng.randrange(shape[1]) - rng.choice([0, shape[1]])}]}, False
    if q < 0.62:
        return {'t': 'tup', 'v': [{'t': 'int', 'v': rng.randrange(shape[0]) - rng.choice([0, shape[0]])},
                                  {'t': 'slice', 'v': [None, None, rng.choice([None, -1])]}]}, False
    if q < 0.74:
        # 2-D result: slice x slice
        return {'t': 'tup', 'v': [{'t': 'slice', 'v': [None, None, rng.choice([None, -1])]},
                                  {'t': 'slice', 'v': [rng.choice([None, 0]), None, None]}]}, False
    if q < 0.84:
        # 2-D result: pair of 2-D index arrays
        return {'t': 'tup', 'v': [{'t': 'list2', 'v': [ints(2, shape[0]), ints(2, shape[0])]},
                                  {'t': 'list2', 'v': [ints(2, shape[1]), ints(2, shape[1])]}]}, False
    if q < 0.93:
        # non-tuple index array into a 2-D non-flat source selects whole rows
        return {'t': 'list', 'v': ints(rng.choice([1, 2]), shape[0])}, False
    return {'t': 'int', 'v': rng.randrange(shape[0]) - rng.choice([0, shape[0]])}, False


def _pattern(rng, m, n, fmt, dups=True):
    """COO pattern (rows, cols) of a partial of shape (m, n) in the entry order the format stores."""
    if fmt == 'dense':
        return [i for i in range(m) for _ in range(n)], [j for _ in range(m) for j in range(n)]
    if fmt == 'diag':
        return list(range(m)), list(range(m))
    cells = [(i, j) for i in range(m) for j in range(n)]
    k = rng.randrange(1, len(cells) + 1) if rng.random() < 0.9 else len(cells)
    k = min(k, 6)
    pick = rng.sample(cells, k)
    if fmt == 'rc':
        pass                                   # declared rows/cols: any order, no duplicates
    elif fmt == 'coo':
        if dups and rng.random() < 0.5 and k >= 1:      # scipy coo may repeat a coordinate
            pick.append(rng.choice(pick))
            rng.shuffle(pick)
    elif fmt == 'csr':
        pick.sort()
    elif fmt == 'csc':
        pick.sort(key=lambda p: (p[1], p[0]))
    return [p[0] for p in pick], [p[1] for p in pick]


def gen_case(rng, tier='quick', force=None):
    force = force or {}
    owner = force.get('owner') or rng.choice(['model', 'model', 'g', 'g', 'g', 'comp'])
    nsteps = 3
    # 'nodup': no position of dr/do is hit twice (DenseMatrix keeps a plain array and assigns);
    # 'dup': repeated source elements / shared sources (COO data summed, CSC/CSR accumulate)
    mode = force.get('mode') or rng.choice(['dup', 'dup', 'dup', 'nodup', 'nodup'])
    case = {'owner': owner, 'vseed': rng.randrange(10 ** 6), 'mode': mode}
    # history
    r = rng.random()
    if r < 0.35:
        hist = [['lin', 0]]
    elif r < 0.6:
        hist = [['lin', 0], ['lin', 1], ['lin', 2]]
    else:
        hist = [['lin', rng.randrange(nsteps)]]
        cs = False
        for _ in range(rng.choice([2, 3, 4])):
            if rng.random() < 0.5:
                cs = not cs
                hist.append(['cs', int(cs)])
            hist.append(['lin', rng.randrange(nsteps)])
    case['hist'] = hist
    # complex-step histories currently run into two known defects with scipy-coo and rows/cols
    # partials; most of them avoid those formats so that the rest of the history is still compared
    safe = any(h[0] == 'cs' for h in hist) and rng.random() < 0.75
    # the reverse linear transfer (np.bincount) does not take complex vectors either: the
    # matrix-free reverse product under complex step is exercised in a quarter of those histories
    case['cs_dict_rev'] = bool(any(h[0] == 'cs' for h in hist) and rng.random() < 0.25)
    # sources outside the owning group
    srcs = []
    for k in range(rng.choice([1, 1, 2])):
        shape = rng.choice([[2], [3], [4], [2, 2], [2, 3], [3, 2]])
        srcs.append({'name': 's%d' % k, 'shape': shape, 'units': rng.choice([None, 'm', 'm', 'km'])})
    case['srcs'] = srcs
    ncomp = 1 if owner == 'comp' else rng.choice([2, 2, 3, 3, 4])
    comps = []
    avail = [(['ivc', s['name']], s['shape'], s['units']) for s in srcs]
    for ci in range(ncomp):
        kind = 'imp' if owner == 'comp' else rng.choice(['exp', 'exp', 'imp'])
        comp = {'name': 'c%d' % ci, 'kind': kind, 'wrap': False, 'ins': [], 'outs': [], 'parts': []}
        for oi in range(rng.choice([1, 1, 2])):
            shape = rng.choice([[1], [2], [3], [2, 2], [2, 3], [4]])
            comp['outs'].append({'name': 'y%d' % oi, 'shape': shape,
                                 'units': rng.choice([None, 'm', 'm', 'km'])})
        nin = rng.choice([1, 2, 2, 3])
        two_level = False
        taken = {}                       # nodup mode: source -> flat positions already used
        for ii in range(nin):
            # prefer sources inside the owner (other components) so that dr/do gets the columns;
            # reuse a source already used by this component to get duplicates across sub-jacobians
            used = [i['src'] for i in comp['ins']]
            if used and rng.random() < 0.45:
                sname = rng.choice(used)
                src = [a for a in avail if a[0] == sname][0]
            else:
                inner = [a for a in avail if a[0][0] != 'ivc']
                src = rng.choice(inner) if inner and rng.random() < 0.7 else rng.choice(avail)
            sname, sshape, sunits = src
            levels = []
            r = rng.random()
            if mode == 'nodup':
                n_src = int(np.prod(sshape))
                free = [q for q in range(n_src) if q not in taken.setdefault(tuple(sname), set())]
                if not free:
                    continue
                if len(free) == n_src and r < 0.15:
                    pick = list(range(n_src))            # whole source, no src_indices
                else:
                    pick = rng.sample(free, rng.randrange(1, len(free) + 1))
                    neg = [q - n_src if rng.random() < 0.35 else q for q in pick]
                    if len(sshape) == 2 and rng.random() < 0.5:
                        i0 = [q // sshape[1] for q in pick]
                        i1 = [q % sshape[1] for q in pick]
                        i0 = [a - sshape[0] if rng.random() < 0.3 else a for a in i0]
                        i1 = [a - sshape[1] if rng.random() < 0.3 else a for a in i1]
                        levels.append({'idx': {'t': 'tup', 'v': [{'t': 'list', 'v': i0},
                                                                 {'t': 'list', 'v': i1}]},
                                       'flat': False})
                    else:
                        levels.append({'idx': {'t': 'list', 'v': neg}, 'flat': True})
                    if rng.random() < 0.3 and not two_level and len(pick) >= 1:
                        k2 = rng.randrange(1, len(pick) + 1)
                        sel = rng.sample(range(len(pick)), k2)
                        sel = [q - len(pick) if rng.random() < 0.35 else q for q in sel]
                        levels.append({'idx': {'t': 'list', 'v': sel}, 'flat': True})
                        two_level = True
                taken[tuple(sname)].update(int(q) for q in chain_positions(sshape, levels).ravel())
            elif r < 0.12:
                pass                                     # whole source, no src_indices
            else:
                spec, flat = _rand_index(rng, sshape)
                levels.append({'idx': spec, 'flat': flat})
                if rng.random() < 0.3 and not two_level:
                    shp = list(chain_positions(sshape, levels).shape) or [1]
                    if len(shp) <= 2 and int(np.prod(shp)) >= 1:
                        spec2, flat2 = _rand_index(rng, shp)
                        levels.append({'idx': spec2, 'flat': flat2})
                        two_level = True
            try:
                pos = chain_positions(sshape, levels)
            except IndexError:
                levels = []
                pos = chain_positions(sshape, levels)
            size = int(pos.size)
            if size == 0:
                levels = []
                pos = chain_positions(sshape, levels)
                size = int(pos.size)
            in_units = None
            if sunits and rng.random() < 0.6:
                in_units = rng.choice(['cm', 'mm', 'cm', 'mm', 'km', 'inch', sunits])
                if (sunits, in_units) not in UNIT_FACTOR and in_units != sunits:
                    in_units = sunits
            elif rng.random() < 0.3:
                in_units = rng.choice(['m', 'cm'])     # units on the input only: no conversion
            comp['ins'].append({'name': 'x%d' % ii, 'size': size, 'shape': list(pos.shape) or [1],
                                'units': in_units, 'src': sname, 'levels': levels})
        if not comp['ins']:
            sname, sshape, sunits = avail[0]
            comp['ins'].append({'name': 'x0', 'size': int(np.prod(sshape)), 'shape': list(sshape),
                                'units': None, 'src': sname, 'levels': []})
        comp['wrap'] = two_level
        # partials
        for o in comp['outs']:
            m = int(np.prod(o['shape']))
            wrts = [(i['name'], i['size']) for i in comp['ins']]
            if kind == 'imp':
                wrts += [(oo['name'], int(np.prod(oo['shape']))) for oo in comp['outs']]
            for wname, n in wrts:
                if rng.random() < 0.2 and not (kind == 'imp' and wname == o['name']):
                    continue
                fmts = [f for f in FORMATS if (f != 'diag' or m == n)
                        and not (safe and f in ('rc', 'coo'))]
                fmt = force.get('fmt') or rng.choice(fmts)
                if fmt == 'diag' and m != n:
                    fmt = 'dense'
                rows, cols = _pattern(rng, m, n, fmt, mode == 'dup')
                nnz = len(rows)
                part = {'of': o['name'], 'wrt': wname, 'fmt': fmt, 'rows': rows, 'cols': cols,
                        'const': rng.random() < 0.2,
                        'vals': [[rng.randint(-4, 4) for _ in range(nnz)] for _ in range(nsteps)],
                        'ivals': [[rng.randint(-3, 3) for _ in range(nnz)] for _ in range(nsteps)]}
                if fmt in ('csr', 'csc'):
                    # scipy matrices with unsorted indices inside a row / column (any `A @ B` result
                    # looks like that); decided from the generated values, so that the random
                    # stream of older cases is unchanged
                    part['unsorted'] = bool((sum(part['vals'][0]) + nnz + len(comp['parts'])) % 3 == 0)
                comp['parts'].append(part)
        comps.append(comp)
        for o in comp['outs']:
            avail.append(([comp['name'], o['name']], o['shape'], o['units']))
    case['comps'] = comps
    case['totals'] = bool(owner == 'model' and all(c['kind'] == 'exp' for c in comps)
                          and rng.random() < 0.5)
    return case


# ------------------------------------------------------------------------------------------------
# names and layout of the owning system (outputs then inputs, in OpenMDAO's declaration order)

def comp_path(case, comp):
    base = 'g.' if case['owner'] == 'g' else ''
    return base + (comp['name'] + '.c' if comp['wrap'] else comp['name'])


def owner_path(case):
    return {'model': '', 'g': 'g', 'comp': comp_path(case, case['comps'][0])}[case['owner']]


def layout(case):
    """[(abs name, size)] for outputs and inputs of the owning system."""
    outs, ins = [], []
    # subsystems are laid out sorted by name (allow_post_setup_reorder): c0 < c1 < ... < ivc
    for c in case['comps']:
        cp = comp_path(case, c)
        for o in c['outs']:
            outs.append((cp + '.' + o['name'], int(np.prod(o['shape']))))
        for i in c['ins']:
            ins.append((cp + '.' + i['name'], i['size']))
    if case['owner'] == 'model':
        for s in case['srcs']:
            outs.append(('ivc.' + s['name'], int(np.prod(s['shape']))))
    return outs, ins


def src_info(case, sname):
    """(abs name, shape, units, inside owner?) of a source given as [comp, var]."""
    if sname[0] == 'ivc':
        s = [s for s in case['srcs'] if s['name'] == sname[1]][0]
        return 'ivc.' + s['name'], s['shape'], s['units'], case['owner'] == 'model'
    c = [c for c in case['comps'] if c['name'] == sname[0]][0]
    o = [o for o in c['outs'] if o['name'] == sname[1]][0]
    return comp_path(case, c) + '.' + o['name'], o['shape'], o['units'], case['owner'] != 'comp'


def case_subjacs(case):
    """The sub-jacobians of the owning system's assembled jacobian in `_subjacs_info` order.

    Each: dict(block='do'|'di', fmt, m, n (columns of the partial), rows, cols (local COO pattern),
    part (reference to the case's partial, None for the -I of explicit outputs), row0, col0,
    src (flat source positions or None), factor (Fraction or None), ncol_parent).
    """
    outs, ins = layout(case)
    o_start, i_start = {}, {}
    k = 0
    for nm, sz in outs:
        o_start[nm] = k
        k += sz
    n_out = k
    k = 0
    for nm, sz in ins:
        i_start[nm] = k
        k += sz
    n_in = k
    subs = []
    for c in case['comps']:
        cp = comp_path(case, c)
        osz = {o['name']: int(np.prod(o['shape'])) for o in c['outs']}
        byname = {i['name']: i for i in c['ins']}
        # ExplicitComponent._setup_partials adds the -I of its outputs after the declared partials
        own = []
        if c['kind'] == 'exp' and case['owner'] != 'comp':
            for o in c['outs']:
                nm = cp + '.' + o['name']
                sz = osz[o['name']]
                own.append({'block': 'do', 'fmt': 'diag', 'm': sz, 'n': sz, 'rows': list(range(sz)),
                            'cols': list(range(sz)), 'part': None, 'row0': o_start[nm],
                            'col0': o_start[nm], 'src': None, 'factor': None, 'ncol_parent': sz,
                            'key': [nm, nm]})
        decl = []
        for p in c['parts']:
            of = cp + '.' + p['of']
            m = osz[p['of']]
            sub = {'fmt': p['fmt'], 'm': m, 'rows': p['rows'], 'cols': p['cols'], 'part': p,
                   'row0': o_start[of], 'src': None, 'factor': None, 'key': [of, cp + '.' + p['wrt']]}
            if p['wrt'] in osz:
                wn = cp + '.' + p['wrt']
                sub.update(block='do', n=osz[p['wrt']], col0=o_start[wn], ncol_parent=osz[p['wrt']])
            else:
                i = byname[p['wrt']]
                sabs, sshape, sunits, inside = src_info(case, i['src'])
                sub['n'] = i['size']
                if inside:
                    pos = chain_positions(sshape, i['levels']).ravel().tolist() if i['levels'] else None
                    sub.update(block='do', col0=o_start[sabs], src=pos,
                               factor=unit_factor(sunits, i['units']),
                               ncol_parent=int(np.prod(sshape)))
                else:
                    wn = cp + '.' + p['wrt']
                    sub.update(block='di', col0=i_start[wn], ncol_parent=i['size'])
            decl.append(sub)
        subs.extend(decl + own)
    if case['owner'] == 'model':
        for sr in case['srcs']:
            nm = 'ivc.' + sr['name']
            sz = int(np.prod(sr['shape']))
            subs.append({'block': 'do', 'fmt': 'diag', 'm': sz, 'n': sz, 'rows': list(range(sz)),
                         'cols': list(range(sz)), 'part': None, 'row0': o_start[nm],
                         'col0': o_start[nm], 'src': None, 'factor': None, 'ncol_parent': sz,
                         'key': [nm, nm]})
    return subs, n_out, n_in


def inexact(case):
    for c in case['comps']:
        for i in c['ins']:
            _, _, sunits, inside = src_info(case, i['src'])
            if sunits and i['units'] and sunits != i['units'] \
                    and (sunits, i['units']) not in EXACT_UNITS:
                return True
    return False


def has_conversion(case):
    """Any unit conversion at all: the matrix-free path applies it through vector scaling (a
    division and a multiplication), which is not exact even for the factors 100 and 1000."""
    for c in case['comps']:
        for i in c['ins']:
            sunits = src_info(case, i['src'])[2]
            if sunits and i['units'] and sunits != i['units']:
                return True
    return False


def variant_tol(case, variant):
    if inexact(case) or (variant == 'dict' and has_conversion(case)):
        return RTOL_UNITS
    return None


# ------------------------------------------------------------------------------------------------
# exact expectation straight from the property statement (Fractions, complex as pairs)

def part_values(p, k, cs):
    """Entry values (re, im) of partial `p` at step k; constant partials keep their declared value."""
    if p is None:
        return None
    kk = 0 if p['const'] else k
    re = p['vals'][kk]
    if cs and not p['const']:
        return [(Fraction(a), Fraction(b)) for a, b in zip(re, p['ivals'][kk])]
    return [(Fraction(a), Fraction(0)) for a in re]


def expected_operator(case, k, cs):
    """(Jdo, Jdi) as dicts {(r, c): (re, im)} with duplicates summed."""
    subs, n_out, n_in = case_subjacs(case)
    Jdo, Jdi = {}, {}
    for s in subs:
        vals = part_values(s['part'], k, cs)
        if vals is None:
            vals = [(Fraction(-1), Fraction(0))] * len(s['rows'])
        f = s['factor'] if s['factor'] is not None else Fraction(1)
        tgt = Jdo if s['block'] == 'do' else Jdi
        for r, c, (a, b) in zip(s['rows'], s['cols'], vals):
            cc = s['src'][c] if s['src'] is not None else c
            key = (s['row0'] + r, s['col0'] + cc)
            o = tgt.get(key, (Fraction(0), Fraction(0)))
            tgt[key] = (o[0] + a * f, o[1] + b * f)
    return Jdo, Jdi, n_out, n_in


def seeds(case, n_out, n_in, cs, tag):
    rng = random.Random(case['vseed'] * 7 + tag)

    def vec(n):
        if cs:
            return [(Fraction(rng.randint(-3, 3)), Fraction(rng.randint(-2, 2))) for _ in range(n)]
        return [(Fraction(rng.randint(-3, 3)), Fraction(0)) for _ in range(n)]
    return vec(n_out), vec(n_in), vec(n_out)        # d_outputs, d_inputs, d_residuals


def cmul(a, b):
    return (a[0] * b[0] - a[1] * b[1], a[0] * b[1] + a[1] * b[0])


def cadd(a, b):
    return (a[0] + b[0], a[1] + b[1])


def external_inputs(case):
    """Mask over the owner's input vector: True where the input's source is outside the owner."""
    mask = []
    for c in case['comps']:
        for i in c['ins']:
            inside = src_info(case, i['src'])[3]
            mask.extend([not inside] * i['size'])
    return mask


def expected_obs(case, k, cs, tag):
    Jdo, Jdi, n_out, n_in = expected_operator(case, k, cs)
    do, di, dr = seeds(case, n_out, n_in, cs, tag)
    ext = external_inputs(case)
    z = (Fraction(0), Fraction(0))
    fwd = [z] * n_out
    for (r, c), v in Jdo.items():
        fwd[r] = cadd(fwd[r], cmul(v, do[c]))
    for (r, c), v in Jdi.items():
        fwd[r] = cadd(fwd[r], cmul(v, di[c]))
    rev_o = [z] * n_out
    rev_i = [z] * n_in
    for (r, c), v in Jdo.items():
        rev_o[c] = cadd(rev_o[c], cmul(v, dr[r]))
    for (r, c), v in Jdi.items():
        rev_i[c] = cadd(rev_i[c], cmul(v, dr[r]))
    J = [[z] * (n_out + n_in) for _ in range(n_out)]
    for (r, c), v in Jdo.items():
        J[r][c] = v
    for (r, c), v in Jdi.items():
        J[r][n_out + c] = v
    return {'J': J, 'fwd': fwd, 'rev_o': rev_o,
            'rev_i': [v if e else z for v, e in zip(rev_i, ext)]}


# ------------------------------------------------------------------------------------------------
# the real code

_OM = {}


def _om():
    if not _OM:
        import openmdao.api as om
        import scipy.sparse as sp
        _OM['om'] = om
        _OM['sp'] = sp

        def _declare(self):
            spec = self._c11
            for i in spec['ins']:
                self.add_input(i['name'], np.zeros(i['shape']), units=i['units'])
            for o in spec['outs']:
                self.add_output(o['name'], np.zeros(o['shape']), units=o['units'])
            for p in spec['parts']:
                v = _value(self, p, 0, False)
                if p['fmt'] == 'dense':
                    if p['const'] or self._c11_rng.random() < 0.5:
                        self.declare_partials(p['of'], p['wrt'], val=v)
                    else:
                        self.declare_partials(p['of'], p['wrt'])
                elif p['fmt'] == 'rc':
                    self.declare_partials(p['of'], p['wrt'], rows=p['rows'], cols=p['cols'], val=v)
                elif p['fmt'] == 'diag':
                    self.declare_partials(p['of'], p['wrt'], diagonal=True, val=v)
                else:
                    self.declare_partials(p['of'], p['wrt'], val=v)

        def _shape(self, p):
            spec = self._c11
            m = [int(np.prod(o['shape'])) for o in spec['outs'] if o['name'] == p['of']][0]
            n = [i['size'] for i in spec['ins'] if i['name'] == p['wrt']] + \
                [int(np.prod(o['shape'])) for o in spec['outs'] if o['name'] == p['wrt']]
            return m, n[0]

        def _value(self, p, k, cs):
            kk = 0 if p['const'] else k
            if cs and not p['const']:
                data = np.array(p['vals'][kk], dtype=complex) + 1j * np.array(p['ivals'][kk])
            else:
                data = np.array(p['vals'][kk], dtype=float)
            m, n = _shape(self, p)
            f = p['fmt']
            if f == 'dense':
                return data.reshape(m, n)
            if f in ('rc', 'diag'):
                return data
            rows, cols = np.array(p['rows']), np.array(p['cols'])
            if f == 'coo':
                return sp.coo_matrix((data, (rows, cols)), shape=(m, n))
            if f == 'csr':
                M = sp.csr_matrix((data, (rows, cols)), shape=(m, n))
            else:
                M = sp.csc_matrix((data, (rows, cols)), shape=(m, n))
            co = M.tocoo()
            if co.row.tolist() != list(p['rows']) or co.col.tolist() != list(p['cols']):
                raise Infra('scipy %s entry order differs from the generated pattern' % f)
            if p.get('unsorted'):
                # the same matrix, stored with the entries of every row (column) in reverse order
                M = M.copy()
                for r in range(len(M.indptr) - 1):
                    a, b = M.indptr[r], M.indptr[r + 1]
                    M.indices[a:b] = M.indices[a:b][::-1].copy()
                    M.data[a:b] = M.data[a:b][::-1].copy()
                M.has_sorted_indices = False
            return M

        def _set_partials(self, partials):
            k = self._c11_state['k']
            cs = bool(self.under_complex_step)
            for p in self._c11['parts']:
                if not p['const']:
                    partials[p['of'], p['wrt']] = _value(self, p, k, cs)

        class Exp(om.ExplicitComponent):
            def __init__(self, spec, state, seed):
                super().__init__()
                self._c11 = spec
                self._c11_state = state
                self._c11_rng = random.Random(seed)

            def setup(self):
                _declare(self)

            def compute(self, inputs, outputs):
                for o in self._c11['outs']:
                    outputs[o['name']] = 0.0

            def compute_partials(self, inputs, partials):
                _set_partials(self, partials)

        class Imp(om.ImplicitComponent):
            def __init__(self, spec, state, seed):
                super().__init__()
                self._c11 = spec
                self._c11_state = state
                self._c11_rng = random.Random(seed)

            def setup(self):
                _declare(self)

            def apply_nonlinear(self, inputs, outputs, residuals):
                for o in self._c11['outs']:
                    residuals[o['name']] = 0.0

            def linearize(self, inputs, outputs, partials):
                _set_partials(self, partials)

        _OM['Exp'] = Exp
        _OM['Imp'] = Imp
    return _OM


def build_problem(case, variant, solver='krylov'):
    """Build the real Problem for one variant. Returns (problem, owning system getter, state)."""
    o = _om()
    om = o['om']
    state = {'k': 0}
    p = om.Problem()
    model = p.model
    ivc = om.IndepVarComp()
    for s in case['srcs']:
        ivc.add_output(s['name'], np.zeros(s['shape']), units=s['units'])
    model.add_subsystem('ivc', ivc)
    if case['owner'] == 'g':
        parent = model.add_subsystem('g', om.Group())
    else:
        parent = model
    holders = {}
    for ci, c in enumerate(case['comps']):
        cls = o['Exp'] if c['kind'] == 'exp' else o['Imp']
        comp = cls(c, state, case['vseed'] + ci)
        if c['wrap']:
            w = parent.add_subsystem(c['name'], om.Group())
            w.add_subsystem('c', comp)
            holders[c['name']] = w
        else:
            parent.add_subsystem(c['name'], comp)
    # connections
    for c in case['comps']:
        for i in c['ins']:
            sabs = src_info(case, i['src'])[0]
            levels = i['levels']
            if c['wrap']:
                w = holders[c['name']]
                tgt_rel = '%s.%s' % (c['name'], i['name'])
                if len(levels) == 2:
                    shp = list(chain_positions(src_info(case, i['src'])[1], levels[:1]).shape) or [1]
                    w.promotes('c', inputs=[i['name']], src_indices=py_idx(levels[1]['idx']),
                               flat_src_indices=levels[1]['flat'], src_shape=tuple(shp))
                    outer = levels[:1]
                else:
                    w.promotes('c', inputs=[i['name']])
                    outer = levels
            else:
                tgt_rel = '%s.%s' % (c['name'], i['name'])
                outer = levels
            kw = {}
            if outer:
                kw = {'src_indices': py_idx(outer[0]['idx']), 'flat_src_indices': outer[0]['flat']}
            if case['owner'] == 'g':
                if i['src'][0] == 'ivc':
                    model.connect(sabs, 'g.' + tgt_rel, **kw)
                else:
                    parent.connect(sabs[2:], tgt_rel, **kw)
            else:
                model.connect(sabs, tgt_rel, **kw)

    if any(h[0] == 'cs' for h in case['hist']):
        # linear vectors are only allocated complex when a gradient-based nonlinear solver is
        # present (check_allocate_complex_ln); it is never run here
        model.nonlinear_solver = om.NewtonSolver(solve_subsystems=False, iprint=-1)

    def owner():
        path = owner_path(case)
        return model if path == '' else model._get_subsystem(path)

    own = model if case['owner'] == 'model' else (parent if case['owner'] == 'g' else comp)
    if variant != 'dict':
        own.options['assembled_jac_type'] = variant
        if solver == 'direct':
            own.linear_solver = om.DirectSolver(assemble_jac=True)
        else:
            own.linear_solver = om.ScipyKrylov(assemble_jac=True)
    elif solver == 'direct':
        own.linear_solver = om.DirectSolver(assemble_jac=False)
    return p, owner, state


def _enc(arr, cs):
    a = np.asarray(arr)
    if np.iscomplexobj(a):
        return {'re': [rat(float(x)) for x in a.real.ravel()],
                'im': [rat(float(x)) for x in a.imag.ravel()], 'shape': list(a.shape)}
    return {'re': [rat(float(x)) for x in a.ravel()], 'shape': list(a.shape)}


def _setvec(vec, vals, cs):
    arr = vec.asarray()
    if cs:
        arr[:] = np.array([float(a) + 1j * float(b) for a, b in vals], dtype=complex)
    else:
        arr[:] = np.array([float(a) for a, _ in vals])


def run_variant(case, variant):
    """Drive one variant through the history; returns {'obs': [...]} or {'error': ...}."""
    res = {'obs': []}
    stage = 'build'
    try:
        with warnings.catch_warnings():
            warnings.simplefilter('ignore')
            p, owner, state = build_problem(case, variant)
            stage = 'setup'
            p.setup(force_alloc_complex=True)
            p.final_setup()
            S = owner()
            # layout cross-check (vector layout is an input of the model, not part of the property)
            outs, ins = layout(case)
            real_outs = [(n, m['size']) for n, m in S._var_abs2meta['output'].items()]
            real_ins = [(n, m['size']) for n, m in S._var_abs2meta['input'].items()]
            if real_outs != outs or real_ins != ins:
                raise Infra('layout: harness %s %s, OpenMDAO %s %s' % (outs, ins, real_outs, real_ins))
            n_out = sum(s for _, s in outs)
            n_in = sum(s for _, s in ins)
            ext = np.array(external_inputs(case), dtype=bool)
            cs = False
            for tag, (op, arg) in enumerate(case['hist']):
                if op == 'cs':
                    stage = 'set_complex_step_mode'
                    cs = bool(arg)
                    p.set_complex_step_mode(cs)
                    continue
                stage = 'linearize'
                state['k'] = arg
                p.model.run_linearize()
                ob = {}
                stage = 'todense'
                if variant != 'dict':
                    J = S._assembled_jac
                    if J is None:
                        raise Infra('no assembled jacobian on the owning system')
                    ob['jac'] = type(J).__name__
                    if 'keys_do' not in res:
                        for blk, attr in (('keys_do', '_dr_do_mtx'), ('keys_di', '_dr_di_mtx')):
                            mtx = getattr(J, attr, None)
                            sm = getattr(mtx, '_submats', None)
                            res[blk] = None if sm is None else [list(k) for k in sm.keys()]
                    D = J.todense()
                    if D.shape != (n_out, n_out + n_in):
                        # a missing dr/di block is a block of zeros
                        if D.shape == (n_out, n_out):
                            D = np.hstack([D, np.zeros((n_out, n_in))])
                        else:
                            raise Infra('todense shape %s' % (D.shape,))
                    ob['J'] = _enc(D, cs)
                do, di, dr = seeds(case, n_out, n_in, cs, tag)
                stage = 'apply_fwd'
                S._dresiduals.set_val(0.0)
                _setvec(S._doutputs, do, cs)
                _setvec(S._dinputs, di, cs)
                S.run_apply_linear('fwd')
                ob['fwd'] = _enc(S._dresiduals.asarray().copy(), cs)
                ob['cs'] = cs
                ob['k'] = arg
                ob['tag'] = tag
                if variant == 'dict' and cs and not case.get('cs_dict_rev'):
                    res['obs'].append(ob)
                    continue
                stage = 'apply_rev'
                S._doutputs.set_val(0.0)
                S._dinputs.set_val(0.0)
                _setvec(S._dresiduals, dr, cs)
                S.run_apply_linear('rev')
                ob['rev_o'] = _enc(S._doutputs.asarray().copy(), cs)
                ri = S._dinputs.asarray().copy()
                if n_in:
                    ri[~ext] = 0.0
                ob['rev_i'] = _enc(ri, cs)
                res['obs'].append(ob)
    except Infra:
        raise
    except Exception as e:
        res['error'] = type(e).__name__
        res['stage'] = stage
        res['msg'] = str(e)[:300]
    return res


def run_totals(case, variant):
    om = _om()['om']
    try:
        with warnings.catch_warnings():
            warnings.simplefilter('ignore')
            p, owner, state = build_problem(case, variant, solver='direct')
            p.setup()
            p.run_model()
            of = [n for n, _ in layout(case)[0] if not n.startswith('ivc.')]
            wrt = ['ivc.' + s['name'] for s in case['srcs']]
            state['k'] = case['hist'][0][1]
            tot = p.compute_totals(of=of, wrt=wrt)
            return {'tot': {'%s|%s' % k: [[float(x) for x in row] for row in np.atleast_2d(v)]
                            for k, v in tot.items()}}
    except Exception as e:
        return {'error': type(e).__name__, 'msg': str(e)[:300]}


# ------------------------------------------------------------------------------------------------
# exact totals (only for all-explicit feed-forward models owned by the top-level group)

def totals_residual(case, tot):
    """Norm-wise backward error of the totals returned by compute_totals: with A = dr/do (exact,
    from the component partials) and X = d(outputs)/d(sources) (identity on the source rows),
    A X = -E.  Returns max|A X + E| / (1 + n max|A| max|X|), which an LU solve keeps at rounding
    level whatever the conditioning; None when the system is so badly scaled that the bound would
    not detect anything."""
    k = case['hist'][0][1]
    Jdo, _, n_out, _ = expected_operator(case, k, False)
    A = np.zeros((n_out, n_out))
    for (r, c), v in Jdo.items():
        A[r, c] = float(v[0])
    outs, _ = layout(case)
    start = {}
    q = 0
    for nm, sz in outs:
        start[nm] = (q, sz)
        q += sz
    wrt = ['ivc.' + s['name'] for s in case['srcs']]
    cols = [c for w in wrt for c in range(start[w][0], start[w][0] + start[w][1])]
    X = np.zeros((n_out, len(cols)))
    E = np.zeros((n_out, len(cols)))
    for j, c in enumerate(cols):
        X[c, j] = 1.0
        E[c, j] = 1.0
    for of, (o0, osz) in start.items():
        if of.startswith('ivc.'):
            continue
        cq = 0
        for w in wrt:
            wsz = start[w][1]
            X[o0:o0 + osz, cq:cq + wsz] = np.array(tot['%s|%s' % (of, w)]).reshape(osz, wsz)
            cq += wsz
    R = A @ X + E
    size = float(np.max(np.abs(A)) * np.max(np.abs(X)))
    if not size <= 1e9:
        return None                       # badly scaled (unit factors multiply up): not judged
    return float(np.max(np.abs(R)) / (1.0 + n_out * size))


# ------------------------------------------------------------------------------------------------
# structural attribution of failures (for the known-findings signatures)

def do_positions(case):
    """[(sub, [(r, c), ...])] of the dr/do sub-jacobians, global positions in storage order."""
    subs, n_out, n_in = case_subjacs(case)
    out = []
    for s in subs:
        if s['block'] != 'do':
            continue
        pos = [(s['row0'] + r, s['col0'] + (s['src'][c] if s['src'] is not None else c))
               for r, c in zip(s['rows'], s['cols'])]
        out.append((s, pos))
    return out


def do_has_repeated(case):
    seen = set()
    for _, pos in do_positions(case):
        for p in pos:
            if p in seen:
                return True
            seen.add(p)
    return False


def dense_view_hazard(case):
    """True when DenseMatrix keeps a plain array and some dense sub-jacobian with src_indices and a
    unit factor shares its view (rows of `of` x the whole source variable) with another
    sub-jacobian: `view *= factor` then rescales the other one's entries."""
    if do_has_repeated(case):
        return False
    allp = do_positions(case)
    for s, pos in allp:
        if s['fmt'] != 'dense' or s['factor'] is None or s['src'] is None:
            continue
        own = set(pos)
        r0, r1 = s['row0'], s['row0'] + s['m']
        c0, c1 = s['col0'], s['col0'] + s['ncol_parent']
        for t, tpos in allp:
            if t is s:
                continue
            if any(r0 <= r < r1 and c0 <= c < c1 and (r, c) not in own for r, c in tpos):
                return True
    return False


def has_fmt(case, fmt, wrt_kind=None):
    for c in case['comps']:
        innames = {i['name'] for i in c['ins']}
        for p in c['parts']:
            if p['fmt'] == fmt:
                if wrt_kind is None or (wrt_kind == 'input') == (p['wrt'] in innames):
                    return True
    return False


def _dec(e):
    re = [unrat(x) for x in e['re']]
    im = [unrat(x) for x in e['im']] if 'im' in e else [Fraction(0)] * len(re)
    return list(zip(re, im))


def _close(got, exp, tol, scale=None):
    """Exact equality when `tol` is None; otherwise absolute error at most tol * scale, where
    `scale` bounds the magnitude of the terms that were summed (cancellation is not amplified)."""
    if len(got) != len(exp):
        return False
    if tol is None:
        return got == exp
    if scale is None:
        scale = max([1.0] + [abs(float(e[0])) for e in exp] + [abs(float(e[1])) for e in exp])
    for g, e in zip(got, exp):
        if abs(float(g[0]) - float(e[0])) > tol * scale or abs(float(g[1]) - float(e[1])) > tol * scale:
            return False
    return True


def _flat(J):
    return [x for row in J for x in row]


def _scales(expJ):
    """(scale for matrix entries, scale for products with the seed vectors |seed| <= 4)."""
    js = max([1.0] + [abs(float(a)) + abs(float(b)) for row in expJ for a, b in row])
    ncol = len(expJ[0]) if expJ else 1
    return js, 4.0 * js * max(1, ncol, len(expJ))


class C11(Property):
    pid = 'C11'
    workers = 1
    tolerance = RTOL_UNITS
    required_theorems = ['C11_csc_map_correct', 'C11_csr_map_correct', 'C11_add_at_seq',
                         'C11_buffered_seq', 'C11_buffered_add_partial', 'C11_buffered_add_iff',
                         'C11_buffered_add_needs_no_duplicates', 'C11_flag_exact',
                         'C11_update_is_add_at', 'C11_accumulate', 'C11_accumulate_order',
                         'C11_all_formats_equal', 'C11_same_dense_same_operator',
                         'C11_dictionary_equal', 'C11_dense_plain_partial',
                         'C11_dense_plain_cells_scaled', 'C11_dense_view_scaling_counterexample',
                         'C11_dtype_switch']
    rule = ("cases: real OpenMDAO models built by the harness — an IndepVarComp (1-2 sources of rank 1-2, "
            "units m/km/none) and 1-4 harness-defined explicit/implicit components (1-3 inputs, 1-2 "
            "outputs) whose partials are declared dense / rows-cols / diagonal / scipy coo (with repeated "
            "coordinates) / csr / csc with integer values, some constant, some re-set at every "
            "linearization; inputs connected with src_indices that repeat source elements, negative "
            "entries, non-flat tuple / slice / 2-D index arrays into 2-D sources, whole-row selection, "
            "two levels (connect + promotes), several inputs on one source, unit factors "
            "(m->cm/mm exact, ->km/inch inexact); a 'nodup' mode without any repeated position "
            "(DenseMatrix plain-array path) and a 'dup' mode; the assembled jacobian owned by the model, "
            "by a sub-group (dr/do and dr/di) or by one implicit component; histories of 1-5 "
            "run_linearize calls with changing values and set_complex_step_mode toggles (complex partial "
            "values and complex seed vectors). Each model is built 4 times (assembled_jac_type dense, "
            "csc, csr, and no assembled jacobian) and after every linearization todense() and "
            "run_apply_linear fwd/rev on integer seeds are recorded; for all-explicit models also "
            "compute_totals with DirectSolver. Non-trivial: the case is valid (setup succeeds) and at "
            "least one observation was made; distinct by canonical case encoding.")
    assumptions = ["values are small integers, unit factors 100/1000 are exact in doubles: comparison is "
                   "exact equality of rationals; cases with a non-dyadic factor (m->km, ->inch) use a "
                   "relative tolerance of 1e-12 (of the largest term: max |J| x |seed| x size)",
                   "compute_totals (an LU solve) is checked by its norm-wise backward error: max|A X + E| <= 1e-9 (1 + n max|A| max|X|) with the exact dr/do; systems with max|A| max|X| > 1e9 are not judged",
                   "index semantics reference is real NumPy applied level by level; the unit factors are "
                   "the harness's own exact table",
                   "under complex step the matrix-free reverse product is exercised in a quarter of the "
                   "histories and scipy-coo / rows-cols partials in a quarter (known defects there would "
                   "otherwise hide the rest of the history)"]
    trusted_extra = ["scipy: csc_matrix/csr_matrix((data,(row,col))) has one slot per distinct position in "
                     "column/row-major order and toarray() sums duplicates (contract `slotPos`/`denseAt`, "
                     "validated per case on the real scipy); sparse/dense matrix @ vector; tocoo() order",
                     "NumPy: fancy assignment, `a[idx] += v` (buffered) and np.add.at (modelled and proved "
                     "equal to their cell-wise forms), np.lexsort is a stable sort",
                     "OpenMDAO's setup (promotion, connection resolution, vector layout, order of "
                     "sub-jacobians) is an input of the model: the layout and the order are cross-checked "
                     "against the real system, name resolution is tied only differentially"]
    level_text = ("The assembly code of all formats is modelled in Lean (as_coo_info with the src_indices "
                  "column map and unit factor; COO build and slices; the CSC/CSR lexsort / first-occurrence / "
                  "cumsum / scatter slot map, the within-sub-jacobian duplicate flag, zeroing and the `+=` / "
                  "np.add.at update; DenseMatrix with summed COO data or the assigned-and-scaled plain array; "
                  "the matrix-free transfer + apply_fwd / apply_rev; update histories with dtype "
                  "conversions). Proved for all sub-jacobian lists, values and histories over any commutative "
                  "semiring: the slot map is correct (one slot per distinct position, column/row-major "
                  "order); with the exact duplicate flag every update is np.add.at, buffered += equals it "
                  "only without repeated slots (counterexample proved); after any history the CSC, CSR and "
                  "summed-COO data represent Σ_subjacs factor·coo independently of order, previous updates "
                  "and dtype switches; equal dense forms give equal forward and transposed products; the "
                  "dictionary application equals the triplet operator forward and transposed. The "
                  "plain-array path of DenseMatrix is proved only under the extra hypothesis that the view "
                  "scaled by `view *= factor` contains no other sub-jacobian's cells — the code as found "
                  "violates the full statement (kernel-checked counterexample, reproduced on the "
                  "implementation and listed as a known finding). Model and implementation are compared "
                  "path by path (dense / csc / csr / matrix-free, todense and products, real and complex "
                  "phases) on generated models.")
    level_note = ("partial where named: DenseMatrix plain array (extra hypothesis, defect); OpenMDAO's setup "
                  "and scipy/NumPy primitives are contracts (validated per case), not verified; float "
                  "rounding by exact integer data or tolerance 1e-12. Three further defects of the complex "
                  "dtype switch (exceptions) are found by the direct oracle and listed as known findings.")
    technique = "Lean 4 proof (list induction, semiring algebra) + exact differential correspondence on real models"
    whole_view = True

    # -- probe: does DenseMatrix scale the whole view (code as found) or only the assigned cells? --
    def setup(self, tier):
        _om()
        case = CORPUS_DENSE_VIEW
        r = run_variant(case, 'dense')
        if 'error' in r or not r['obs']:
            raise Infra('probe of DenseMatrix view scaling failed: %s' % r)
        got = _dec(r['obs'][0]['J'])
        exp = _flat(expected_obs(case, 0, False, 0)['J'])
        self.whole_view = got != exp

    def cases(self, rng, tier):
        n = 60 if tier == 'quick' else 2000
        for k in range(n):
            force = {}
            if k % 10 == 0:
                force['mode'] = 'nodup'
            yield gen_case(rng, tier, force)

    # -- real code -------------------------------------------------------------------------------
    def run_impl(self, case):
        res = {'variants': {v: run_variant(case, v) for v in VARIANTS}}
        if case.get('totals'):
            res['totals'] = {v: run_totals(case, v) for v in ('dense', 'csc', 'dict')}
        return res

    # -- direct oracle -----------------------------------------------------------------------------
    def invalid(self, impl):
        vs = impl['variants']
        return all('error' in vs[v] and vs[v]['stage'] in ('build', 'setup') for v in VARIANTS)

    def failures(self, case, impl):
        if self.invalid(impl):
            return []
        fails = []
        vs = impl['variants']
        bad_value = {}
        for v in VARIANTS:
            r = vs[v]
            tol = variant_tol(case, v)
            for ob in r['obs']:
                exp = expected_obs(case, ob['k'], ob['cs'], ob['tag'])
                jscale, vscale = _scales(exp['J'])
                for key in ('J', 'fwd', 'rev_o', 'rev_i'):
                    if key not in ob:
                        continue
                    e = _flat(exp['J']) if key == 'J' else exp[key]
                    if not _close(_dec(ob[key]), e, tol, jscale if key == 'J' else vscale):
                        bad_value.setdefault(v, []).append((ob['tag'], key, ob[key], e))
        if bad_value:
            which = '+'.join(sorted(bad_value))
            attributed = 'none'
            if which == 'dense' and dense_view_hazard(case) and \
                    all(k in ('J', 'fwd', 'rev_o') for _, k, _, _ in bad_value['dense']):
                attributed = 'dense_view_scaled_by_factor'
            v0 = sorted(bad_value)[0]
            tag, key, got, e = bad_value[v0][0]
            fails.append({'what': 'assembled_jac_type=%s: %s differs from the operator defined by the '
                                  'component partials (Σ factor·coo)' % (v0, key),
                          'step': tag, 'got': got,
                          'expected': [[rat(a), rat(b)] for a, b in e],
                          'sig': {'kind': 'value_mismatch', 'variants': which,
                                  'attributed': attributed}})
        errs = {v: vs[v] for v in VARIANTS if 'error' in vs[v]}
        if errs:
            groups = {}
            for v, r in errs.items():
                groups.setdefault((r['error'], r['stage'] if not r['stage'].startswith('apply')
                                   else 'apply'), []).append(v)
            for (err, stage), vv in sorted(groups.items()):
                which = '+'.join(sorted(vv)) if len(vv) < len(VARIANTS) else 'all'
                r = errs[vv[0]]
                nobs = len(r['obs'])
                lin_steps = [(t, h) for t, h in enumerate(case['hist']) if h[0] == 'lin']
                # the complex-step state at the failing linearization
                cs = False
                seen = 0
                for h in case['hist']:
                    if h[0] == 'cs':
                        cs = bool(h[1])
                    else:
                        if seen == nobs:
                            break
                        seen += 1
                attributed = 'none'
                if err == 'TypeError' and stage == 'linearize' and cs and has_fmt(case, 'coo') \
                        and which == 'all':
                    attributed = 'scipy_coo_partial_under_complex_step'
                if err == 'TypeError' and stage == 'apply' and cs and which == 'dict':
                    if r['stage'] == 'apply_fwd' and has_fmt(case, 'rc'):
                        attributed = 'rows_cols_partial_complex_matvec'
                    elif r['stage'] == 'apply_rev':
                        # rows/cols partial (OMCOOSubjac bincount) or the reverse linear transfer
                        attributed = 'complex_reverse_matvec_bincount'
                fails.append({'what': '%s raised %s at %s%s' % (
                    which, err, r['stage'], ' under complex step' if cs else ''),
                    'msg': r['msg'], 'sig': {'kind': 'raises', 'variants': which, 'error': err,
                                              'stage': stage, 'cs': cs, 'attributed': attributed}})
        # totals through the public API (backward error of the linear solve)
        if 'totals' in impl:
            for v, r in impl['totals'].items():
                if 'error' in r:
                    fails.append({'what': 'compute_totals raised %s with %s' % (r['error'], v),
                                  'msg': r['msg'],
                                  'sig': {'kind': 'totals_raise', 'variants': v, 'error': r['error']}})
                    continue
                res = totals_residual(case, r['tot'])
                if res is not None and not res <= 1e-9:
                    att = 'dense_view_scaled_by_factor' if (v == 'dense' and
                                                            dense_view_hazard(case)) else 'none'
                    fails.append({'what': 'compute_totals with %s does not solve dr/do X = -E of the '
                                          'component partials (relative residual %.3g)' % (v, res),
                                  'got': r['tot'],
                                  'sig': {'kind': 'totals_mismatch', 'variants': v, 'attributed': att}})
        return fails

    def oracle(self, case, impl):
        from common import match_known
        fails = self.failures(case, impl)
        if not fails:
            return None
        for f in fails:
            if match_known(self.pid, f['sig']) is None:
                return f
        return fails[0]

    def signature(self, case, impl, failure):
        return failure['sig']

    def nontrivial(self, case, impl):
        if self.invalid(impl):
            return False
        return any(len(impl['variants'][v]['obs']) > 0 for v in VARIANTS)

    def bucket(self, case, impl):
        b = ['owner=' + case['owner'], 'mode=' + case['mode']]
        if self.invalid(impl):
            return b + ['invalid_case']
        b.append('do_has_repeated=%s' % do_has_repeated(case))
        allp = do_positions(case)
        if any(len(set(pos)) < len(pos) for _, pos in allp):
            b.append('duplicates_within_a_subjac')     # np.add.at branch
        seen = set()
        across = False
        for _, pos in allp:
            if seen & set(pos):
                across = True
            seen |= set(pos)
        if across:
            b.append('duplicates_across_subjacs')
        subs, n_out, n_in = case_subjacs(case)
        if any(s['block'] == 'di' for s in subs):
            b.append('has_dr_di')
        for f in sorted({p['fmt'] for c in case['comps'] for p in c['parts']}):
            b.append('fmt=' + f)
        if any(p.get('unsorted') and len(p['rows']) > 1 for c in case['comps'] for p in c['parts']):
            b.append('scipy_matrix_with_unsorted_indices')
        for c in case['comps']:
            b.append('comp=' + c['kind'])
            per_src = {}
            for i in c['ins']:
                per_src.setdefault(tuple(i['src']), []).append(i)
                _, sshape, sunits, inside = src_info(case, i['src'])
                b.append('levels=%d' % len(i['levels']))
                if i['levels']:
                    pos = chain_positions(sshape, i['levels']).ravel().tolist()
                    if len(set(pos)) < len(pos):
                        b.append('src_indices_repeat_element')
                    if any(not l['flat'] for l in i['levels']):
                        b.append('nonflat_src_indices')
                    if '-' in canon([l['idx'] for l in i['levels']]):
                        b.append('negative_src_indices')
                    if chain_positions(sshape, i['levels'][:1]).ndim >= 2:
                        b.append('nd_index_result_level1')
                    if chain_positions(sshape, i['levels']).ndim >= 2:
                        b.append('nd_index_result_final')
                f = unit_factor(sunits, i['units'])
                if f is not None:
                    b.append('factor_exact' if (sunits, i['units']) in EXACT_UNITS else 'factor_inexact')
            if any(len(v) > 1 for v in per_src.values()):
                b.append('inputs_share_source')
        ncs = sum(1 for h in case['hist'] if h[0] == 'cs')
        b.append('cs_toggles=%d' % ncs)
        b.append('linearizations=%d' % sum(1 for h in case['hist'] if h[0] == 'lin'))
        if dense_view_hazard(case):
            b.append('dense_view_hazard')
        if case.get('totals'):
            b.append('totals_checked')
        for v in VARIANTS:
            r = impl['variants'][v]
            b.append('%s_%s' % (v, 'error:' + r['error'] + '@' + r['stage'] if 'error' in r else 'ok'))
        return b

    # -- model -----------------------------------------------------------------------------------
    def _requests(self, case):
        subs, n_out, n_in = case_subjacs(case)
        lin = []
        cs = False
        prev_cs = False
        for tag, (op, arg) in enumerate(case['hist']):
            if op == 'cs':
                cs = bool(arg)
                continue
            lin.append((tag, arg, cs, prev_cs))
            prev_cs = cs
        any_cs = any(c for _, _, c, _ in lin)
        reqs = []
        meta = []
        for block, ncols in (('do', n_out), ('di', n_in)):
            bs = [s for s in subs if s['block'] == block]
            if not bs:
                continue
            jsubs = []
            for s in bs:
                if s['fmt'] == 'dense':
                    pat = {'t': 'dense', 'm': s['m'], 'n': s['n']}
                elif s['fmt'] == 'diag':
                    pat = {'t': 'diag', 'n': s['m']}
                else:
                    pat = {'t': 'coo', 'rows': s['rows'], 'cols': s['cols']}
                jsubs.append({'pat': pat, 'row0': s['row0'], 'col0': s['col0'], 'pn': s['ncol_parent'],
                              'src': s['src'], 'factor': None if s['factor'] is None else rat(s['factor']),
                              'nin': s['n']})
            for part in (('re', 'im') if any_cs else ('re',)):
                hist = []
                for tag, k, c, pc in lin:
                    vals = []
                    for s in bs:
                        pv = part_values(s['part'], k, c)
                        if pv is None:
                            pv = [(Fraction(-1), Fraction(0))] * len(s['rows'])
                        vals.append([rat(a if part == 're' else b) for a, b in pv])
                    conv = 'zero' if (part == 'im' and pc and not c) else 'id'
                    hist.append({'conv': conv, 'vals': vals})
                xs, ys = [], []
                for tag, k, c, pc in lin:
                    do, di, dr = seeds(case, n_out, n_in, c, tag)
                    x = do if block == 'do' else di
                    xs.append([rat(a) for a, _ in x])
                    xs.append([rat(b) for _, b in x])
                    ys.append([rat(a) for a, _ in dr])
                    ys.append([rat(b) for _, b in dr])
                reqs.append({'op': 'run', 'nrows': n_out, 'ncols': ncols, 'subs': jsubs,
                             'whole_view': bool(self.whole_view), 'hist': hist, 'x': xs, 'y': ys})
                meta.append((block, part))
        # flat src_indices chains through the modelled idx_list_to_index_array
        chains = []
        for c in case['comps']:
            for i in c['ins']:
                if i['levels'] and all(l['flat'] and l['idx']['t'] == 'list' for l in i['levels']):
                    _, sshape, _, _ = src_info(case, i['src'])
                    reqs.append({'op': 'chain', 'n': int(np.prod(sshape)),
                                 'levels': [l['idx']['v'] for l in i['levels']]})
                    chains.append(chain_positions(sshape, i['levels']).ravel().tolist())
        return reqs, meta, chains, lin, (n_out, n_in)

    def model_requests(self, case, impl):
        if self.invalid(impl):
            return []
        return self._requests(case)[0]

    def compare(self, case, impl, answers):
        reqs, meta, chains, lin, (n_out, n_in) = self._requests(case)
        runs = answers[:len(meta)]
        for a, pos in zip(answers[len(meta):], chains):
            if a['pos'] != pos:
                raise Infra('Lean chainIdx %s != NumPy chain %s' % (a['pos'], pos))
        by = {m: a for m, a in zip(meta, runs)}
        any_cs = ('do', 'im') in by or ('di', 'im') in by
        self._scipy_contract(by)
        ext = external_inputs(case)
        z = Fraction(0)

        def mat(block, part, path, li):
            a = by.get((block, part))
            ncols = n_out if block == 'do' else n_in
            if a is None:
                return [[z] * ncols for _ in range(n_out)]
            return [[unrat(x) for x in row] for row in a['steps'][li][path]]

        def vecs(block, part, key, li):
            """(result on the real seed, result on the imaginary seed) of one request."""
            a = by.get((block, part))
            n = n_out if key.startswith('fwd') else (n_out if block == 'do' else n_in)
            if a is None:
                return [z] * n, [z] * n
            r = a['steps'][li][key]
            return [unrat(x) for x in r[2 * li]], [unrat(x) for x in r[2 * li + 1]]

        def cplx(block, key, li):
            rr, ri = vecs(block, 're', key, li)
            if any_cs:
                ir, ii = vecs(block, 'im', key, li)
            else:
                ir, ii = [z] * len(rr), [z] * len(rr)
            return [(a - d, b + c) for a, b, c, d in zip(rr, ri, ir, ii)]

        paths = {'dense': ('dense', 'csr'), 'csc': ('csc', 'csr'), 'csr': ('csr', 'csr'),
                 'dict': ('dict', 'dict')}
        for v in VARIANTS:
            r = impl['variants'][v]
            # sub-jacobian order of the real matrices (only matters for the dense view scaling)
            if v != 'dict' and r.get('keys_do') is not None:
                subs = case_subjacs(case)[0]
                mine = [s['key'] for s in subs if s['block'] == 'do']
                if mine != r['keys_do']:
                    raise Infra('dr/do sub-jacobian order: harness %s, OpenMDAO %s' % (mine, r['keys_do']))
            pdo, pdi = paths[v]
            tol = variant_tol(case, v)
            for li, ob in enumerate(r['obs']):
                jscale, vscale = (None, None) if tol is None else \
                    _scales(expected_obs(case, ob['k'], ob['cs'], ob['tag'])['J'])
                if v != 'dict':
                    Jm = []
                    for row in range(n_out):
                        rdo_re = mat('do', 're', pdo, li)[row]
                        rdi_re = mat('di', 're', pdi, li)[row]
                        rdo_im = mat('do', 'im', pdo, li)[row] if any_cs else [z] * n_out
                        rdi_im = mat('di', 'im', pdi, li)[row] if any_cs else [z] * n_in
                        Jm.extend(zip(rdo_re + rdi_re, rdo_im + rdi_im))
                    if not _close(_dec(ob['J']), Jm, tol, jscale):
                        return '%s step %d: todense differs from the modelled %s/%s path' % (
                            v, ob['tag'], pdo, pdi)
                fdo = cplx('do', 'fwd_' + pdo, li)
                fdi = cplx('di', 'fwd_' + pdi, li)
                fwd = [cadd(a, b) for a, b in zip(fdo, fdi)]
                if not _close(_dec(ob['fwd']), fwd, tol, vscale):
                    return '%s step %d: forward product differs from the modelled %s/%s path' % (
                        v, ob['tag'], pdo, pdi)
                if 'rev_o' not in ob:
                    continue
                rvo = cplx('do', 'rev_' + pdo, li)
                if not _close(_dec(ob['rev_o']), rvo, tol, vscale):
                    return '%s step %d: reverse product (outputs) differs from the modelled %s path' % (
                        v, ob['tag'], pdo)
                rvi = cplx('di', 'rev_' + pdi, li)
                rvi = [x if e else (z, z) for x, e in zip(rvi, ext)]
                if not _close(_dec(ob['rev_i']), rvi, tol, vscale):
                    return '%s step %d: reverse product (inputs) differs from the modelled %s path' % (
                        v, ob['tag'], pdi)
        return None

    def _scipy_contract(self, by):
        """scipy's csc/csr of a COO pattern has one slot per distinct position in column/row-major
        order — the contract under which the modelled slot map is read (infrastructure check)."""
        sp = _om()['sp']
        for (block, part), a in by.items():
            if part != 're' or not a['pos']:
                continue
            rows = np.array([p[0] for p in a['pos']])
            cols = np.array([p[1] for p in a['pos']])
            shape = (int(rows.max()) + 1, int(cols.max()) + 1)
            ones = np.ones(len(rows))
            csc = sp.csc_matrix((ones, (rows, cols)), shape=shape)
            got = [[int(r), c] for c in range(shape[1])
                   for r in csc.indices[csc.indptr[c]:csc.indptr[c + 1]]]
            if got != a['csc_uniq']:
                raise Infra('scipy csc structure %s != modelled slot positions %s' % (got, a['csc_uniq']))
            csr = sp.csr_matrix((ones, (rows, cols)), shape=shape)
            got = [[r, int(c)] for r in range(shape[0])
                   for c in csr.indices[csr.indptr[r]:csr.indptr[r + 1]]]
            if got != a['csr_uniq']:
                raise Infra('scipy csr structure %s != modelled slot positions %s' % (got, a['csr_uniq']))
            if bool((csc.data > 1.0).any()) != a['rep']:
                raise Infra('has_repeated differs')


# minimal model of the DenseMatrix view-scaling defect (also the probe of `setup`)
CORPUS_DENSE_VIEW = {
    'owner': 'model', 'vseed': 1, 'mode': 'nodup', 'totals': True,
    'srcs': [{'name': 's0', 'shape': [4], 'units': 'm'}],
    'comps': [{'name': 'c0', 'kind': 'exp', 'wrap': False,
               'ins': [{'name': 'x0', 'size': 2, 'shape': [2], 'units': 'cm', 'src': ['ivc', 's0'],
                        'levels': [{'idx': {'t': 'list', 'v': [0, 1]}, 'flat': True}]},
                       {'name': 'x1', 'size': 2, 'shape': [2], 'units': 'cm', 'src': ['ivc', 's0'],
                        'levels': [{'idx': {'t': 'list', 'v': [2, -1]}, 'flat': True}]}],
               'outs': [{'name': 'y0', 'shape': [2], 'units': None}],
               'parts': [{'of': 'y0', 'wrt': 'x0', 'fmt': 'dense', 'rows': [0, 0, 1, 1],
                          'cols': [0, 1, 0, 1], 'const': False,
                          'vals': [[1, 2, 3, 4]] * 3, 'ivals': [[0, 0, 0, 0]] * 3},
                         {'of': 'y0', 'wrt': 'x1', 'fmt': 'dense', 'rows': [0, 0, 1, 1],
                          'cols': [0, 1, 0, 1], 'const': False,
                          'vals': [[5, 6, 7, 8]] * 3, 'ivals': [[0, 0, 0, 0]] * 3}]}],
    'hist': [['lin', 0]],
}

PROP = C11()
