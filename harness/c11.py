"""C11 — assembled Jacobian formats represent the same linear operator.

A case is a small real OpenMDAO model built by the harness: an IndepVarComp plus 2-4 harness-defined
explicit / implicit components whose partials are declared in every supported format (dense, declared
rows/cols, diagonal, scipy coo/csr/csc) with small integer values.  Inputs are connected with
`src_indices` (repeated source elements, negative indices, non-flat indices into 2-D sources, two
levels connect + promotes) and unit conversions, so that duplicate (row, col) positions arise in the
assembled dr/do matrix the way they do in practice.  The same model is built four times
(`assembled_jac_type` dense / csc / csr and no assembled jacobian at all), driven through the same
history of `run_linearize` calls with changing partial values and `set_complex_step_mode` toggles, and
after every linearization the operator is observed: `todense()` of the assembled jacobian and
`run_apply_linear('fwd' | 'rev')` on integer seed vectors.

* direct oracle (no Lean): the four variants agree with each other and with the operator computed in
  exact `Fraction` arithmetic from the component partials, NumPy index semantics and a unit table.
* correspondence: the Lean driver executes the modelled build/update code paths of DenseMatrix,
  CSCMatrix, CSRMatrix, the COO data and the dictionary application on the same sub-jacobians and the
  same history; each modelled path is compared with its real counterpart.
"""
import random
import warnings
from fractions import Fraction

import numpy as np

from common import Property, rat, unrat, Infra, canon

# exact factors (source unit -> input unit); the implementation's factor is a double
UNIT_FACTOR = {
    ('m', 'cm'): Fraction(100), ('m', 'mm'): Fraction(1000), ('m', 'km'): Fraction(1, 1000),
    ('m', 'inch'): Fraction(10000, 254), ('km', 'm'): Fraction(1000), ('km', 'cm'): Fraction(100000),
    ('km', 'mm'): Fraction(1000000), ('km', 'inch'): Fraction(10000000, 254),
}
EXACT_UNITS = {('m', 'cm'), ('m', 'mm'), ('km', 'm'), ('km', 'cm'), ('km', 'mm')}
RTOL_UNITS = 1e-12
FORMATS = ['dense', 'rc', 'diag', 'coo', 'csr', 'csc']
VARIANTS = ['dense', 'csc', 'csr', 'dict']


def unit_factor(src_units, in_units):
    """Exact conversion factor d(input)/d(source), None when no conversion applies."""
    if not src_units or not in_units or src_units == in_units:
        return None
    return UNIT_FACTOR[(src_units, in_units)]


# ------------------------------------------------------------------------------------------------
# index specs (JSON) <-> python objects; reference semantics is NumPy

def py_idx(spec):
    t = spec['t']
    if t == 'int':
        return int(spec['v'])
    if t == 'list':
        return [int(x) for x in spec['v']]
    if t == 'list2':
        return np.array([[int(x) for x in r] for r in spec['v']], dtype=int)
    if t == 'slice':
        return slice(*spec['v'])
    if t == 'tup':
        return tuple(py_idx(s) for s in spec['v'])
    raise ValueError(t)


def level_positions(pos, lev):
    """Apply one src_indices level to the array `pos` of flat source positions (NumPy semantics)."""
    a = pos.ravel() if lev['flat'] else pos
    r = np.asarray(a[py_idx(lev['idx'])])
    return r


def chain_positions(shape, levels):
    """Flat source position of every element of the input, by NumPy indexing level by level."""
    pos = np.arange(int(np.prod(shape)), dtype=int).reshape(shape)
    for lev in levels:
        pos = level_positions(pos, lev)
    return pos


# ------------------------------------------------------------------------------------------------
# case generator

def _rand_index(rng, shape, want=None):
    """A random index spec into an array of `shape`; returns (spec, flat?)."""
    n = int(np.prod(shape))
    nd = len(shape)

    def ints(k, hi):
        # mostly valid, with repeats and negative entries
        out = []
        for _ in range(k):
            v = rng.randrange(hi)
            if rng.random() < 0.35:
                v -= hi
            out.append(v)
        if k > 1 and rng.random() < 0.5:
            out[rng.randrange(k)] = out[rng.randrange(k)]      # force a repeat
        return out

    k = want if want is not None else rng.choice([1, 2, 2, 3, 3, 4])
    r = rng.random()
    if nd == 1 or r < 0.4:
        # flat index list / slice / int into the flattened source
        q = rng.random()
        if q < 0.75:
            return {'t': 'list', 'v': ints(k, n)}, True
        if q < 0.92:
            a = rng.randrange(n)
            b = rng.randrange(a, n) + 1
            st = rng.choice([1, 1, 2])
            if rng.random() < 0.3:
                return {'t': 'slice', 'v': [b - 1, None if a == 0 else a - 1, -st]}, True
            return {'t': 'slice', 'v': [a, b, st]}, True
        v = rng.randrange(n)
        return {'t': 'int', 'v': v - n if rng.random() < 0.5 else v}, True
    # non-flat index into a 2-D source
    q = rng.random()
    if q < 0.35:
        return {'t': 'tup', 'v': [{'t': 'list', 'v': ints(k, shape[0])},
                                  {'t': 'list', 'v': ints(k, shape[1])}]}, False
    if q < 0.5:
        return {'t': 'tup', 'v': [{'t': 'slice', 'v': [None, None, None]},
                                  {'t': 'int', 'v': rng.randrange(shape[1]) - rng.choice([0, shape[1]])}]}, False
    if q < 0.62:
        return {'t': 'tup', 'v': [{'t': 'int', 'v': rng.randrange(shape[0]) - rng.choice([0, shape[0]])},
                                  {'t': 'slice', 'v': [None, None, rng.choice([None, -1])]}]}, False
    if q < 0.74:
        # 2-D result: slice x slice
        return {'t': 'tup', 'v': [{'t': 'slice', 'v': [None, None, rng.choice([None, -1])]},
                                  {'t': 'slice', 'v': [rng.choice([None, 0]), None, None]}]}, False
    if q < 0.84:
        # 2-D result: pair of 2-D index arrays
        return {'t': 'tup', 'v': [{'t': 'list2', 'v': [ints(2, shape[0]), ints(2, shape[0])]},
                                  {'t': 'list2', 'v': [ints(2, shape[1]), ints(2, shape[1])]}]}, False
    if q < 0.93:
        # non-tuple index array into a 2-D non-flat source selects whole rows
        return {'t': 'list', 'v': ints(rng.choice([1, 2]), shape[0])}, False
    return {'t': 'int', 'v': rng.randrange(shape[0]) - rng.choice([0, shape[0]])}, False


def _pattern(rng, m, n, fmt):
    """COO pattern (rows, cols) of a partial of shape (m, n) in the entry order the format stores."""
    if fmt == 'dense':
        return [i for i in range(m) for _ in range(n)], [j for _ in range(m) for j in range(n)]
    if fmt == 'diag':
        return list(range(m)), list(range(m))
    cells = [(i, j) for i in range(m) for j in range(n)]
    k = rng.randrange(1, len(cells) + 1) if rng.random() < 0.9 else len(cells)
    k = min(k, 6)
    pick = rng.sample(cells, k)
    if fmt == 'rc':
        pass                                   # declared rows/cols: any order, no duplicates
    elif fmt == 'coo':
        if rng.random() < 0.5 and k >= 1:      # scipy coo may repeat a coordinate
            pick.append(rng.choice(pick))
            rng.shuffle(pick)
    elif fmt == 'csr':
        pick.sort()
    elif fmt == 'csc':
        pick.sort(key=lambda p: (p[1], p[0]))
    return [p[0] for p in pick], [p[1] for p in pick]


def gen_case(rng, tier='quick', force=None):
    force = force or {}
    owner = force.get('owner') or rng.choice(['model', 'model', 'g', 'g', 'g', 'comp'])
    nsteps = 3
    case = {'owner': owner, 'vseed': rng.randrange(10 ** 6)}
    # sources outside the owning group
    srcs = []
    for k in range(rng.choice([1, 1, 2])):
        shape = rng.choice([[2], [3], [4], [2, 2], [2, 3], [3, 2]])
        srcs.append({'name': 's%d' % k, 'shape': shape, 'units': rng.choice([None, 'm', 'm', 'km'])})
    case['srcs'] = srcs
    ncomp = 1 if owner == 'comp' else rng.choice([2, 2, 3, 3, 4])
    comps = []
    avail = [(['ivc', s['name']], s['shape'], s['units']) for s in srcs]
    for ci in range(ncomp):
        kind = 'imp' if owner == 'comp' else rng.choice(['exp', 'exp', 'imp'])
        comp = {'name': 'c%d' % ci, 'kind': kind, 'wrap': False, 'ins': [], 'outs': [], 'parts': []}
        for oi in range(rng.choice([1, 1, 2])):
            shape = rng.choice([[1], [2], [3], [2, 2], [2, 3], [4]])
            comp['outs'].append({'name': 'y%d' % oi, 'shape': shape,
                                 'units': rng.choice([None, 'm', 'm', 'km'])})
        nin = rng.choice([1, 2, 2, 3])
        two_level = False
        for ii in range(nin):
            # prefer sources inside the owner (other components) so that dr/do gets the columns;
            # reuse a source already used by this component to get duplicates across sub-jacobians
            used = [i['src'] for i in comp['ins']]
            if used and rng.random() < 0.45:
                sname = rng.choice(used)
                src = [a for a in avail if a[0] == sname][0]
            else:
                inner = [a for a in avail if a[0][0] != 'ivc']
                src = rng.choice(inner) if inner and rng.random() < 0.7 else rng.choice(avail)
            sname, sshape, sunits = src
            levels = []
            r = rng.random()
            if r < 0.12:
                pass                                     # whole source, no src_indices
            else:
                spec, flat = _rand_index(rng, sshape)
                levels.append({'idx': spec, 'flat': flat})
                if rng.random() < 0.3 and not two_level:
                    shp = list(chain_positions(sshape, levels).shape) or [1]
                    if len(shp) <= 2 and int(np.prod(shp)) >= 1:
                        spec2, flat2 = _rand_index(rng, shp)
                        levels.append({'idx': spec2, 'flat': flat2})
                        two_level = True
            try:
                pos = chain_positions(sshape, levels)
            except IndexError:
                levels = []
                pos = chain_positions(sshape, levels)
            size = int(pos.size)
            if size == 0:
                levels = []
                pos = chain_positions(sshape, levels)
                size = int(pos.size)
            in_units = None
            if sunits and rng.random() < 0.6:
                in_units = rng.choice(['cm', 'mm', 'cm', 'mm', 'km', 'inch', sunits])
                if (sunits, in_units) not in UNIT_FACTOR and in_units != sunits:
                    in_units = sunits
            elif rng.random() < 0.3:
                in_units = rng.choice(['m', 'cm'])     # units on the input only: no conversion
            comp['ins'].append({'name': 'x%d' % ii, 'size': size, 'shape': list(pos.shape) or [1],
                                'units': in_units, 'src': sname, 'levels': levels})
        comp['wrap'] = two_level
        # partials
        for o in comp['outs']:
            m = int(np.prod(o['shape']))
            wrts = [(i['name'], i['size']) for i in comp['ins']]
            if kind == 'imp':
                wrts += [(oo['name'], int(np.prod(oo['shape']))) for oo in comp['outs']]
            for wname, n in wrts:
                if rng.random() < 0.2 and not (kind == 'imp' and wname == o['name']):
                    continue
                fmts = [f for f in FORMATS if f != 'diag' or m == n]
                fmt = force.get('fmt') or rng.choice(fmts)
                if fmt == 'diag' and m != n:
                    fmt = 'dense'
                rows, cols = _pattern(rng, m, n, fmt)
                nnz = len(rows)
                part = {'of': o['name'], 'wrt': wname, 'fmt': fmt, 'rows': rows, 'cols': cols,
                        'const': rng.random() < 0.2,
                        'vals': [[rng.randint(-4, 4) for _ in range(nnz)] for _ in range(nsteps)],
                        'ivals': [[rng.randint(-3, 3) for _ in range(nnz)] for _ in range(nsteps)]}
                comp['parts'].append(part)
        comps.append(comp)
        for o in comp['outs']:
            avail.append(([comp['name'], o['name']], o['shape'], o['units']))
    case['comps'] = comps
    # history
    r = rng.random()
    if r < 0.35:
        hist = [['lin', 0]]
    elif r < 0.6:
        hist = [['lin', 0], ['lin', 1], ['lin', 2]]
    else:
        hist = [['lin', rng.randrange(nsteps)]]
        cs = False
        for _ in range(rng.choice([2, 3, 4])):
            if rng.random() < 0.5:
                cs = not cs
                hist.append(['cs', int(cs)])
            hist.append(['lin', rng.randrange(nsteps)])
    case['hist'] = hist
    case['totals'] = bool(owner == 'model' and all(c['kind'] == 'exp' for c in comps)
                          and rng.random() < 0.5)
    return case


# ------------------------------------------------------------------------------------------------
# names and layout of the owning system (outputs then inputs, in OpenMDAO's declaration order)

def comp_path(case, comp):
    base = 'g.' if case['owner'] == 'g' else ''
    return base + (comp['name'] + '.c' if comp['wrap'] else comp['name'])


def owner_path(case):
    return {'model': '', 'g': 'g', 'comp': comp_path(case, case['comps'][0])}[case['owner']]


def layout(case):
    """[(abs name, size)] for outputs and inputs of the owning system."""
    outs, ins = [], []
    # subsystems are laid out sorted by name (allow_post_setup_reorder): c0 < c1 < ... < ivc
    for c in case['comps']:
        cp = comp_path(case, c)
        for o in c['outs']:
            outs.append((cp + '.' + o['name'], int(np.prod(o['shape']))))
        for i in c['ins']:
            ins.append((cp + '.' + i['name'], i['size']))
    if case['owner'] == 'model':
        for s in case['srcs']:
            outs.append(('ivc.' + s['name'], int(np.prod(s['shape']))))
    return outs, ins


def src_info(case, sname):
    """(abs name, shape, units, inside owner?) of a source given as [comp, var]."""
    if sname[0] == 'ivc':
        s = [s for s in case['srcs'] if s['name'] == sname[1]][0]
        return 'ivc.' + s['name'], s['shape'], s['units'], case['owner'] == 'model'
    c = [c for c in case['comps'] if c['name'] == sname[0]][0]
    o = [o for o in c['outs'] if o['name'] == sname[1]][0]
    return comp_path(case, c) + '.' + o['name'], o['shape'], o['units'], case['owner'] != 'comp'


def case_subjacs(case):
    """The sub-jacobians of the owning system's assembled jacobian in `_subjacs_info` order.

    Each: dict(block='do'|'di', fmt, m, n (columns of the partial), rows, cols (local COO pattern),
    part (reference to the case's partial, None for the -I of explicit outputs), row0, col0,
    src (flat source positions or None), factor (Fraction or None), ncol_parent).
    """
    outs, ins = layout(case)
    o_start, i_start = {}, {}
    k = 0
    for nm, sz in outs:
        o_start[nm] = k
        k += sz
    n_out = k
    k = 0
    for nm, sz in ins:
        i_start[nm] = k
        k += sz
    n_in = k
    subs = []
    if case['owner'] == 'model':
        for s in case['srcs']:
            nm = 'ivc.' + s['name']
            sz = int(np.prod(s['shape']))
            subs.append({'block': 'do', 'fmt': 'rc', 'm': sz, 'n': sz, 'rows': list(range(sz)),
                         'cols': list(range(sz)), 'part': None, 'row0': o_start[nm],
                         'col0': o_start[nm], 'src': None, 'factor': None, 'ncol_parent': sz,
                         'key': [nm, nm]})
    for c in case['comps']:
        cp = comp_path(case, c)
        osz = {o['name']: int(np.prod(o['shape'])) for o in c['outs']}
        byname = {i['name']: i for i in c['ins']}
        # OpenMDAO declares the -I of an explicit component's outputs first (at _setup_partials)
        own = []
        if c['kind'] == 'exp' and case['owner'] != 'comp':
            for o in c['outs']:
                nm = cp + '.' + o['name']
                sz = osz[o['name']]
                own.append({'block': 'do', 'fmt': 'rc', 'm': sz, 'n': sz, 'rows': list(range(sz)),
                            'cols': list(range(sz)), 'part': None, 'row0': o_start[nm],
                            'col0': o_start[nm], 'src': None, 'factor': None, 'ncol_parent': sz,
                            'key': [nm, nm]})
        decl = []
        for p in c['parts']:
            of = cp + '.' + p['of']
            m = osz[p['of']]
            sub = {'fmt': p['fmt'], 'm': m, 'rows': p['rows'], 'cols': p['cols'], 'part': p,
                   'row0': o_start[of], 'src': None, 'factor': None, 'key': [of, cp + '.' + p['wrt']]}
            if p['wrt'] in osz:
                wn = cp + '.' + p['wrt']
                sub.update(block='do', n=osz[p['wrt']], col0=o_start[wn], ncol_parent=osz[p['wrt']])
            else:
                i = byname[p['wrt']]
                sabs, sshape, sunits, inside = src_info(case, i['src'])
                sub['n'] = i['size']
                if inside:
                    pos = chain_positions(sshape, i['levels']).ravel().tolist() if i['levels'] else None
                    sub.update(block='do', col0=o_start[sabs], src=pos,
                               factor=unit_factor(sunits, i['units']),
                               ncol_parent=int(np.prod(sshape)))
                else:
                    wn = cp + '.' + p['wrt']
                    sub.update(block='di', col0=i_start[wn], ncol_parent=i['size'])
            decl.append(sub)
        subs.extend(own + decl)
    return subs, n_out, n_in


def inexact(case):
    for c in case['comps']:
        for i in c['ins']:
            _, _, sunits, inside = src_info(case, i['src'])
            if inside and sunits and i['units'] and sunits != i['units'] \
                    and (sunits, i['units']) not in EXACT_UNITS:
                return True
    return False


# ------------------------------------------------------------------------------------------------
# exact expectation straight from the property statement (Fractions, complex as pairs)

def part_values(p, k, cs):
    """Entry values (re, im) of partial `p` at step k; constant partials keep their declared value."""
    if p is None:
        return None
    kk = 0 if p['const'] else k
    re = p['vals'][kk]
    if cs and not p['const']:
        return [(Fraction(a), Fraction(b)) for a, b in zip(re, p['ivals'][kk])]
    return [(Fraction(a), Fraction(0)) for a in re]


def expected_operator(case, k, cs):
    """(Jdo, Jdi) as dicts {(r, c): (re, im)} with duplicates summed."""
    subs, n_out, n_in = case_subjacs(case)
    Jdo, Jdi = {}, {}
    for s in subs:
        vals = part_values(s['part'], k, cs)
        if vals is None:
            vals = [(Fraction(-1), Fraction(0))] * len(s['rows'])
        f = s['factor'] if s['factor'] is not None else Fraction(1)
        tgt = Jdo if s['block'] == 'do' else Jdi
        for r, c, (a, b) in zip(s['rows'], s['cols'], vals):
            cc = s['src'][c] if s['src'] is not None else c
            key = (s['row0'] + r, s['col0'] + cc)
            o = tgt.get(key, (Fraction(0), Fraction(0)))
            tgt[key] = (o[0] + a * f, o[1] + b * f)
    return Jdo, Jdi, n_out, n_in


def seeds(case, n_out, n_in, cs, tag):
    rng = random.Random(case['vseed'] * 7 + tag)

    def vec(n):
        if cs:
            return [(Fraction(rng.randint(-3, 3)), Fraction(rng.randint(-2, 2))) for _ in range(n)]
        return [(Fraction(rng.randint(-3, 3)), Fraction(0)) for _ in range(n)]
    return vec(n_out), vec(n_in), vec(n_out)        # d_outputs, d_inputs, d_residuals


def cmul(a, b):
    return (a[0] * b[0] - a[1] * b[1], a[0] * b[1] + a[1] * b[0])


def cadd(a, b):
    return (a[0] + b[0], a[1] + b[1])


def external_inputs(case):
    """Mask over the owner's input vector: True where the input's source is outside the owner."""
    mask = []
    for c in case['comps']:
        for i in c['ins']:
            inside = src_info(case, i['src'])[3]
            mask.extend([not inside] * i['size'])
    return mask


def expected_obs(case, k, cs, tag):
    Jdo, Jdi, n_out, n_in = expected_operator(case, k, cs)
    do, di, dr = seeds(case, n_out, n_in, cs, tag)
    ext = external_inputs(case)
    z = (Fraction(0), Fraction(0))
    fwd = [z] * n_out
    for (r, c), v in Jdo.items():
        fwd[r] = cadd(fwd[r], cmul(v, do[c]))
    for (r, c), v in Jdi.items():
        fwd[r] = cadd(fwd[r], cmul(v, di[c]))
    rev_o = [z] * n_out
    rev_i = [z] * n_in
    for (r, c), v in Jdo.items():
        rev_o[c] = cadd(rev_o[c], cmul(v, dr[r]))
    for (r, c), v in Jdi.items():
        rev_i[c] = cadd(rev_i[c], cmul(v, dr[r]))
    J = [[z] * (n_out + n_in) for _ in range(n_out)]
    for (r, c), v in Jdo.items():
        J[r][c] = v
    for (r, c), v in Jdi.items():
        J[r][n_out + c] = v
    return {'J': J, 'fwd': fwd, 'rev_o': rev_o,
            'rev_i': [v if e else z for v, e in zip(rev_i, ext)]}


# ------------------------------------------------------------------------------------------------
# the real code

_OM = {}


def _om():
    if not _OM:
        import openmdao.api as om
        import scipy.sparse as sp
        _OM['om'] = om
        _OM['sp'] = sp

        def _declare(self):
            spec = self._c11
            for i in spec['ins']:
                self.add_input(i['name'], np.zeros(i['shape']), units=i['units'])
            for o in spec['outs']:
                self.add_output(o['name'], np.zeros(o['shape']), units=o['units'])
            for p in spec['parts']:
                v = _value(self, p, 0, False)
                if p['fmt'] == 'dense':
                    if p['const'] or self._c11_rng.random() < 0.5:
                        self.declare_partials(p['of'], p['wrt'], val=v)
                    else:
                        self.declare_partials(p['of'], p['wrt'])
                elif p['fmt'] == 'rc':
                    self.declare_partials(p['of'], p['wrt'], rows=p['rows'], cols=p['cols'], val=v)
                elif p['fmt'] == 'diag':
                    self.declare_partials(p['of'], p['wrt'], diagonal=True, val=v)
                else:
                    self.declare_partials(p['of'], p['wrt'], val=v)

        def _shape(self, p):
            spec = self._c11
            m = [int(np.prod(o['shape'])) for o in spec['outs'] if o['name'] == p['of']][0]
            n = [i['size'] for i in spec['ins'] if i['name'] == p['wrt']] + \
                [int(np.prod(o['shape'])) for o in spec['outs'] if o['name'] == p['wrt']]
            return m, n[0]

        def _value(self, p, k, cs):
            kk = 0 if p['const'] else k
            if cs and not p['const']:
                data = np.array(p['vals'][kk], dtype=complex) + 1j * np.array(p['ivals'][kk])
            else:
                data = np.array(p['vals'][kk], dtype=float)
            m, n = _shape(self, p)
            f = p['fmt']
            if f == 'dense':
                return data.reshape(m, n)
            if f in ('rc', 'diag'):
                return data
            rows, cols = np.array(p['rows']), np.array(p['cols'])
            if f == 'coo':
                return sp.coo_matrix((data, (rows, cols)), shape=(m, n))
            if f == 'csr':
                M = sp.csr_matrix((data, (rows, cols)), shape=(m, n))
            else:
                M = sp.csc_matrix((data, (rows, cols)), shape=(m, n))
            co = M.tocoo()
            if co.row.tolist() != list(p['rows']) or co.col.tolist() != list(p['cols']):
                raise Infra('scipy %s entry order differs from the generated pattern' % f)
            return M

        def _set_partials(self, partials):
            k = self._c11_state['k']
            cs = bool(self.under_complex_step)
            for p in self._c11['parts']:
                if not p['const']:
                    partials[p['of'], p['wrt']] = _value(self, p, k, cs)

        class Exp(om.ExplicitComponent):
            def __init__(self, spec, state, seed):
                super().__init__()
                self._c11 = spec
                self._c11_state = state
                self._c11_rng = random.Random(seed)

            def setup(self):
                _declare(self)

            def compute(self, inputs, outputs):
                for o in self._c11['outs']:
                    outputs[o['name']] = 0.0

            def compute_partials(self, inputs, partials):
                _set_partials(self, partials)

        class Imp(om.ImplicitComponent):
            def __init__(self, spec, state, seed):
                super().__init__()
                self._c11 = spec
                self._c11_state = state
                self._c11_rng = random.Random(seed)

            def setup(self):
                _declare(self)

            def apply_nonlinear(self, inputs, outputs, residuals):
                for o in self._c11['outs']:
                    residuals[o['name']] = 0.0

            def linearize(self, inputs, outputs, partials):
                _set_partials(self, partials)

        _OM['Exp'] = Exp
        _OM['Imp'] = Imp
    return _OM


def build_problem(case, variant, solver='krylov'):
    """Build the real Problem for one variant. Returns (problem, owning system getter, state)."""
    o = _om()
    om = o['om']
    state = {'k': 0}
    p = om.Problem()
    model = p.model
    ivc = om.IndepVarComp()
    for s in case['srcs']:
        ivc.add_output(s['name'], np.zeros(s['shape']), units=s['units'])
    model.add_subsystem('ivc', ivc)
    if case['owner'] == 'g':
        parent = model.add_subsystem('g', om.Group())
    else:
        parent = model
    holders = {}
    for ci, c in enumerate(case['comps']):
        cls = o['Exp'] if c['kind'] == 'exp' else o['Imp']
        comp = cls(c, state, case['vseed'] + ci)
        if c['wrap']:
            w = parent.add_subsystem(c['name'], om.Group())
            w.add_subsystem('c', comp)
            holders[c['name']] = w
        else:
            parent.add_subsystem(c['name'], comp)
    # connections
    for c in case['comps']:
        for i in c['ins']:
            sabs = src_info(case, i['src'])[0]
            levels = i['levels']
            if c['wrap']:
                w = holders[c['name']]
                tgt_rel = '%s.%s' % (c['name'], i['name'])
                if len(levels) == 2:
                    shp = list(chain_positions(src_info(case, i['src'])[1], levels[:1]).shape) or [1]
                    w.promotes('c', inputs=[i['name']], src_indices=py_idx(levels[1]['idx']),
                               flat_src_indices=levels[1]['flat'], src_shape=tuple(shp))
                    outer = levels[:1]
                else:
                    w.promotes('c', inputs=[i['name']])
                    outer = levels
            else:
                tgt_rel = '%s.%s' % (c['name'], i['name'])
                outer = levels
            kw = {}
            if outer:
                kw = {'src_indices': py_idx(outer[0]['idx']), 'flat_src_indices': outer[0]['flat']}
            if case['owner'] == 'g':
                if i['src'][0] == 'ivc':
                    model.connect(sabs, 'g.' + tgt_rel, **kw)
                else:
                    parent.connect(sabs[2:], tgt_rel, **kw)
            else:
                model.connect(sabs, tgt_rel, **kw)

    if any(h[0] == 'cs' for h in case['hist']):
        # linear vectors are only allocated complex when a gradient-based nonlinear solver is
        # present (check_allocate_complex_ln); it is never run here
        model.nonlinear_solver = om.NewtonSolver(solve_subsystems=False)

    def owner():
        path = owner_path(case)
        return model if path == '' else model._get_subsystem(path)

    own = model if case['owner'] == 'model' else (parent if case['owner'] == 'g' else comp)
    if variant != 'dict':
        own.options['assembled_jac_type'] = variant
        if solver == 'direct':
            own.linear_solver = om.DirectSolver(assemble_jac=True)
        else:
            own.linear_solver = om.ScipyKrylov(assemble_jac=True)
    elif solver == 'direct':
        own.linear_solver = om.DirectSolver(assemble_jac=False)
    return p, owner, state


def _enc(arr, cs):
    a = np.asarray(arr)
    if np.iscomplexobj(a):
        return {'re': [rat(float(x)) for x in a.real.ravel()],
                'im': [rat(float(x)) for x in a.imag.ravel()], 'shape': list(a.shape)}
    return {'re': [rat(float(x)) for x in a.ravel()], 'shape': list(a.shape)}


def _setvec(vec, vals, cs):
    arr = vec.asarray()
    if cs:
        arr[:] = np.array([float(a) + 1j * float(b) for a, b in vals], dtype=complex)
    else:
        arr[:] = np.array([float(a) for a, _ in vals])


def run_variant(case, variant):
    """Drive one variant through the history; returns {'obs': [...]} or {'error': ...}."""
    res = {'obs': []}
    stage = 'build'
    try:
        with warnings.catch_warnings():
            warnings.simplefilter('ignore')
            p, owner, state = build_problem(case, variant)
            stage = 'setup'
            p.setup(force_alloc_complex=True)
            p.final_setup()
            S = owner()
            # layout cross-check (vector layout is an input of the model, not part of the property)
            outs, ins = layout(case)
            real_outs = [(n, m['size']) for n, m in S._var_abs2meta['output'].items()]
            real_ins = [(n, m['size']) for n, m in S._var_abs2meta['input'].items()]
            if real_outs != outs or real_ins != ins:
                raise Infra('layout: harness %s %s, OpenMDAO %s %s' % (outs, ins, real_outs, real_ins))
            n_out = sum(s for _, s in outs)
            n_in = sum(s for _, s in ins)
            ext = np.array(external_inputs(case), dtype=bool)
            cs = False
            for tag, (op, arg) in enumerate(case['hist']):
                if op == 'cs':
                    stage = 'set_complex_step_mode'
                    cs = bool(arg)
                    p.set_complex_step_mode(cs)
                    continue
                stage = 'linearize'
                state['k'] = arg
                p.model.run_linearize()
                ob = {}
                stage = 'todense'
                if variant != 'dict':
                    J = S._assembled_jac
                    if J is None:
                        raise Infra('no assembled jacobian on the owning system')
                    ob['jac'] = type(J).__name__
                    D = J.todense()
                    if D.shape != (n_out, n_out + n_in):
                        # a missing dr/di block is a block of zeros
                        if D.shape == (n_out, n_out):
                            D = np.hstack([D, np.zeros((n_out, n_in))])
                        else:
                            raise Infra('todense shape %s' % (D.shape,))
                    ob['J'] = _enc(D, cs)
                do, di, dr = seeds(case, n_out, n_in, cs, tag)
                stage = 'apply_fwd'
                S._dresiduals.set_val(0.0)
                _setvec(S._doutputs, do, cs)
                _setvec(S._dinputs, di, cs)
                S.run_apply_linear('fwd')
                ob['fwd'] = _enc(S._dresiduals.asarray().copy(), cs)
                stage = 'apply_rev'
                S._doutputs.set_val(0.0)
                S._dinputs.set_val(0.0)
                _setvec(S._dresiduals, dr, cs)
                S.run_apply_linear('rev')
                ob['rev_o'] = _enc(S._doutputs.asarray().copy(), cs)
                ri = S._dinputs.asarray().copy()
                if n_in:
                    ri[~ext] = 0.0
                ob['rev_i'] = _enc(ri, cs)
                ob['cs'] = cs
                ob['k'] = arg
                ob['tag'] = tag
                res['obs'].append(ob)
    except Infra:
        raise
    except Exception as e:
        res['error'] = type(e).__name__
        res['stage'] = stage
        res['msg'] = str(e)[:300]
    return res


def run_totals(case, variant):
    om = _om()['om']
    try:
        with warnings.catch_warnings():
            warnings.simplefilter('ignore')
            p, owner, state = build_problem(case, variant, solver='direct')
            p.setup()
            p.run_model()
            of = [n for n, _ in layout(case)[0] if not n.startswith('ivc.')]
            wrt = ['ivc.' + s['name'] for s in case['srcs']]
            state['k'] = case['hist'][0][1]
            tot = p.compute_totals(of=of, wrt=wrt)
            return {'tot': {'%s|%s' % k: [[float(x) for x in row] for row in np.atleast_2d(v)]
                            for k, v in tot.items()}}
    except Exception as e:
        return {'error': type(e).__name__, 'msg': str(e)[:300]}
