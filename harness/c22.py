"""C22 — constraint violation is measured correctly elementwise and in driver units."""
import warnings
from fractions import Fraction

import numpy as np

from common import Property, rat, unrat, rats

DY = [Fraction(k, 4) for k in range(-24, 25)]


def _val(rng):
    return rng.choice(DY)


class C22(Property):
    pid = 'C22'
    required_theorems = ['C22_viol_formula', 'C22_zero_iff_feasible', 'C22_signed_distance',
                         'C22_scaled_pos', 'C22_scaled_neg', 'C22_scaled', 'C22_eq_zero_iff',
                         'C22_eq_scaled', 'C22_vec_pointwise',
                         'C22_viol_formula_needs_consistent_bounds']
    rule = ("cases: random constraint arrays of size 1-5 with dyadic values, bound pattern in "
            "{lower, upper, both, equals} x {scalar, array}, scaler/adder or ref/ref0 (scalar/array, "
            "either sign) or none, driver_scaling flag; built as a real Problem (IndepVarComp -> "
            "ExecComp identity) and queried through Driver.get_constraint_values(viol=True). "
            "Non-trivial: at least one element violates a bound (or deviates from equals); distinct by "
            "canonical case encoding.")
    assumptions = ["values are dyadic rationals so the float computation is exact; comparison is "
                   "exact equality of rationals"]
    level_text = ("The violation kernel (three masked in-place updates, equality deviation, scaling by the "
                  "constraint's total scaler) is modelled in Lean and proved equal to the signed-distance "
                  "specification for all values and all consistent bounds over any linearly ordered field, "
                  "with the driver-unit statement for positive and negative scalers; the model is tied to "
                  "Driver.get_constraint_values(viol=True) by exact differential runs on real Problems.")
    level_note = ("Trusted: Lean kernel + standard axioms; the Python harness; NumPy broadcasting. Modelled, "
                  "not verified: float rounding (cases use dyadic values, comparison exact); how the driver "
                  "gathers constraint values from the model (differential only).")
    technique = "Lean 4 proof over ordered fields + exact differential correspondence"
    trusted_extra = ["NumPy broadcasting of scalar/array bounds (modelled by Bound.bcast)"]

    def cases(self, rng, tier):
        n_cases = 400 if tier == 'quick' else 6000
        for _ in range(n_cases):
            n = rng.choice([1, 2, 3, 3, 4, 5])
            g = [_val(rng) for _ in range(n)]
            kind = rng.choice(['lower', 'upper', 'both', 'both', 'equals'])
            arr = rng.random() < 0.5

            def bound(lo=None):
                if arr:
                    return [_val(rng) for _ in range(n)]
                return _val(rng)
            case = {'g': rats(g), 'kind': kind, 'lower': None, 'upper': None, 'equals': None,
                    'driver_scaling': rng.random() < 0.6}
            if kind == 'equals':
                case['equals'] = bound()
            else:
                lo = bound()
                if kind in ('lower', 'both'):
                    case['lower'] = lo
                if kind in ('upper', 'both'):
                    if kind == 'both':
                        # consistent bounds: upper = lower + nonneg
                        if arr:
                            case['upper'] = [l + abs(_val(rng)) for l in lo]
                        else:
                            case['upper'] = lo + abs(_val(rng))
                    else:
                        case['upper'] = bound()
            if arr and kind != 'equals' and rng.random() < 0.35:
                # array bounds that are infinite (INF_BOUND) in some elements and finite in others
                case['mixed_inf'] = True
                for k, sign in (('lower', -1), ('upper', 1)):
                    if case[k] is not None:
                        case[k] = [sign * Fraction(10) ** 30 if rng.random() < 0.4 else b
                                   for b in case[k]]
            for k in ('lower', 'upper', 'equals'):
                v = case[k]
                if v is not None:
                    case[k] = rats(v) if isinstance(v, list) else rat(v)
            sc = rng.choice(['none', 'scaler', 'scaler_adder', 'ref', 'ref_ref0', 'adder'])
            sarr = rng.random() < 0.4
            POW = [Fraction(1, 4), Fraction(1, 2), Fraction(2), Fraction(4), Fraction(-1),
                   Fraction(-2), Fraction(8), Fraction(-1, 2)]

            def sval(pool):
                if sarr:
                    return rats([rng.choice(pool) for _ in range(n)])
                return rat(rng.choice(pool))
            scal = {}
            if sc in ('scaler', 'scaler_adder'):
                scal['scaler'] = sval(POW)
            if sc in ('adder', 'scaler_adder'):
                scal['adder'] = sval(DY)
            if sc == 'ref':
                scal['ref'] = sval(POW)
            if sc == 'ref_ref0':
                # ref - ref0 must be a power of two for exactness
                r0 = [rng.choice(DY) for _ in range(n)] if sarr else rng.choice(DY)
                if sarr:
                    scal['ref0'] = rats(r0)
                    scal['ref'] = rats([a + rng.choice(POW) for a in r0])
                else:
                    scal['ref0'] = rat(r0)
                    scal['ref'] = rat(r0 + rng.choice(POW))
            case['scaling'] = scal
            yield case

    # -- real code ---------------------------------------------------------------------------------
    def run_impl(self, case):
        import openmdao.api as om

        def f(v):
            if v is None:
                return None
            if isinstance(v, list):
                return np.array([float(unrat(x)) for x in v])
            return float(unrat(v))
        g = f(case['g'])
        n = len(g)
        p = om.Problem()
        p.model.add_subsystem('ivc', om.IndepVarComp('x', np.zeros(n)), promotes=['*'])
        p.model.add_subsystem('c', om.ExecComp(['y=x', 'z=x[0]'], x=np.zeros(n), y=np.zeros(n)),
                              promotes=['*'])
        p.model.add_design_var('x')
        p.model.add_objective('z')
        kw = {k: f(case[k]) for k in ('lower', 'upper', 'equals') if case[k] is not None}
        kw.update({k: f(v) for k, v in case['scaling'].items()})
        res = {}
        try:
            with warnings.catch_warnings():
                warnings.simplefilter('ignore')
                p.model.add_constraint('y', **kw)
                p.setup()
                p.set_val('x', g)
                p.run_model()
                meta = p.driver._cons['y']
                ts = meta['total_scaler']
                res['total_scaler'] = None if ts is None else (
                    rats(np.atleast_1d(ts).ravel().tolist()))
                d = p.driver.get_constraint_values(viol=True,
                                                   driver_scaling=case['driver_scaling'])
                res['v'] = rats(np.asarray(d['y']).ravel().tolist())
                # a result that is held while the driver is asked again (what the least-squares
                # residual of find_feasible does with linear / nonlinear constraints) must not change
                p.driver.get_constraint_values(viol=False, driver_scaling=not case['driver_scaling'])
                p.driver.get_constraint_values(viol=False, driver_scaling=case['driver_scaling'])
                res['v_held'] = rats(np.asarray(d['y']).ravel().tolist())
                # the model itself must not have been disturbed
                res['y_after'] = rats(np.asarray(p.get_val('y')).ravel().tolist())
        except Exception as e:   # compared as an error branch
            res['error'] = type(e).__name__
            res['msg'] = str(e)[:200]
        return res

    # -- expected value straight from the property statement ----------------------------------------
    def expected(self, case):
        g = [unrat(x) for x in case['g']]
        n = len(g)

        def bc(v, default):
            if v is None:
                return [default] * n
            if isinstance(v, list):
                return [unrat(x) for x in v]
            return [unrat(v)] * n
        sc = case['scaling']
        scaler = None
        if 'ref' in sc:
            ref = bc(sc['ref'], None)
            ref0 = bc(sc.get('ref0'), Fraction(0))
            scaler = [1 / (a - b) for a, b in zip(ref, ref0)]
        elif 'scaler' in sc:
            scaler = bc(sc['scaler'], None)
        out = []
        if case['equals'] is not None:
            e = bc(case['equals'], None)
            out = [a - b for a, b in zip(g, e)]
        else:
            INF = Fraction(10) ** 30
            lo = bc(case['lower'], -INF)
            hi = bc(case['upper'], INF)
            for a, l, h in zip(g, lo, hi):
                out.append(a - l if a < l else (a - h if a > h else Fraction(0)))
        if case['driver_scaling'] and scaler is not None:
            out = [v * s for v, s in zip(out, scaler)]
        return out

    def oracle(self, case, impl):
        exp = self.expected(case)
        if 'error' in impl:
            return {'what': 'get_constraint_values(viol=True) raised %s' % impl['error'],
                    'expected': rats(exp), 'msg': impl.get('msg')}
        got = [unrat(x) for x in impl['v']]
        if got != exp:
            return {'what': 'violation differs from signed distance (x scaler)',
                    'expected': rats(exp), 'got': impl['v']}
        if impl.get('v_held') is not None and impl['v_held'] != impl['v']:
            return {'what': 'a returned violation array changed when the driver was queried again',
                    'first': impl['v'], 'held': impl['v_held']}
        if impl['y_after'] != case['g']:
            return {'what': 'model output changed by the query', 'got': impl['y_after']}
        return None

    def signature(self, case, impl, failure):
        return {'array_bounds': any(isinstance(case[k], list) for k in ('lower', 'upper', 'equals')),
                'driver_scaling': case['driver_scaling'], 'error': impl.get('error')}

    def nontrivial(self, case, impl):
        return any(v != 0 for v in self.expected(case))

    def bucket(self, case, impl):
        arr = any(isinstance(case[k], list) for k in ('lower', 'upper', 'equals'))
        return ['kind=' + case['kind'], 'array_bounds' if arr else 'scalar_bounds',
                'scaling=' + '+'.join(sorted(case['scaling'])) if case['scaling'] else 'scaling=none',
                'driver_scaling=%s' % case['driver_scaling'],
                'impl_error' if 'error' in impl else 'impl_ok']

    # -- model -----------------------------------------------------------------------------------
    def model_requests(self, case, impl):
        INF = "1000000000000000000000000000000/1"
        req = {'op': 'viol', 'g': case['g'], 'equals': case['equals'],
               'lower': case['lower'] if case['lower'] is not None else "-" + INF,
               'upper': case['upper'] if case['upper'] is not None else INF,
               'scaler': None}
        # scaler as the implementation resolved it (total_scaler), when driver scaling requested
        if case['driver_scaling'] and impl.get('total_scaler') is not None:
            ts = impl['total_scaler']
            req['scaler'] = ts if len(ts) > 1 else ts[0]
        return [req]

    def compare(self, case, impl, answers):
        a = answers[0]
        if 'error' in impl:
            if a.get('ok'):
                return 'implementation raised %s, model returned %s' % (impl['error'], a['v'])
            return None
        if not a.get('ok'):
            return 'model rejected (%s), implementation returned %s' % (a.get('err'), impl['v'])
        if [unrat(x) for x in a['v']] != [unrat(x) for x in impl['v']]:
            return 'model %s != implementation %s' % (a['v'], impl['v'])
        return None


PROP = C22()
