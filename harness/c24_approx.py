"""C24, family `approx_seq`: one component whose partials are declared pair by pair with a mix of
analytic, fd and cs methods, in a star model (every input fed by its own independent variable, every
output read by its own sink), and a *history* of compute_totals calls with varying of/wrt.  Which
approximations the component carries out is decided by relevance call by call; the results must equal
the exact derivatives and the relevance-disabled run, and the log of `_add_approximations` calls must
equal the Lean model (`approxStep` / `approxQuery`, theorem C24_approx_history_independent)."""
import random
import warnings

import numpy as np


def gen(seed):
    rng = random.Random(seed)
    n_in, n_out = rng.randint(2, 4), rng.randint(2, 3)
    implicit = rng.random() < 0.3
    M = [[0] * n_in for _ in range(n_out)]
    meth = {}
    for j in range(n_out):
        for i in range(n_in):
            if rng.random() < 0.65:
                M[j][i] = rng.choice([-3, -2, -1, 1, 2, 3, 4])
                meth['%d,%d' % (j, i)] = rng.choice(['exact', 'fd', 'cs', 'cs', 'fd'])
    # make sure there is at least one approximated partial
    if not any(m != 'exact' for m in meth.values()):
        j, i = rng.randrange(n_out), rng.randrange(n_in)
        M[j][i] = M[j][i] or 2
        meth['%d,%d' % (j, i)] = 'cs'
    # implicit: R_j = d_j * y_j - sum_i M[j][i] a_i ; d R_j / d y_j declared with its own method
    diag = [rng.choice([1, 2, -2]) for _ in range(n_out)]
    dmeth = [rng.choice(['exact', 'fd', 'cs']) for _ in range(n_out)]
    hist = []
    for _ in range(rng.randint(3, 6)):
        if rng.random() < 0.2:
            hist.append(None)       # the driver's own of/wrt
            continue
        ofs = sorted(rng.sample(range(n_out), rng.randint(1, n_out)))
        wrts = sorted(rng.sample(range(n_in), rng.randint(1, n_in)))
        hist.append({'of': ofs, 'wrt': wrts, 'of_sink': [rng.random() < 0.5 for _ in ofs]})
    return {'n_in': n_in, 'n_out': n_out, 'M': M, 'meth': meth, 'implicit': implicit, 'diag': diag,
            'dmeth': dmeth, 'hist': hist, 'linear': rng.choice([None, None, 'direct', 'lbgs']),
            'mode': rng.choice(['fwd', 'rev']), 'dv': rng.randrange(n_in), 'obj': rng.randrange(n_out)}


def build(spec):
    import openmdao.api as om
    n_in, n_out, M, meth = spec['n_in'], spec['n_out'], spec['M'], spec['meth']
    diag, dmeth = spec['diag'], spec['dmeth']

    class TE(om.ExplicitComponent):
        def setup(self):
            for i in range(n_in):
                self.add_input('a%d' % i, 1.0)
            for j in range(n_out):
                self.add_output('y%d' % j, 1.0)
            for k, m in meth.items():
                j, i = map(int, k.split(','))
                if m == 'exact':
                    self.declare_partials('y%d' % j, 'a%d' % i, val=float(M[j][i]))
                else:
                    self.declare_partials('y%d' % j, 'a%d' % i, method=m)

        def compute(self, inputs, outputs):
            for j in range(n_out):
                outputs['y%d' % j] = sum(M[j][i] * inputs['a%d' % i] for i in range(n_in))

    class TI(om.ImplicitComponent):
        def setup(self):
            for i in range(n_in):
                self.add_input('a%d' % i, 1.0)
            for j in range(n_out):
                self.add_output('y%d' % j, 1.0)
            for k, m in meth.items():
                j, i = map(int, k.split(','))
                if m == 'exact':
                    self.declare_partials('y%d' % j, 'a%d' % i, val=-float(M[j][i]))
                else:
                    self.declare_partials('y%d' % j, 'a%d' % i, method=m)
            for j in range(n_out):
                if dmeth[j] == 'exact':
                    self.declare_partials('y%d' % j, 'y%d' % j, val=float(diag[j]))
                else:
                    self.declare_partials('y%d' % j, 'y%d' % j, method=dmeth[j])

        def apply_nonlinear(self, inputs, outputs, residuals):
            for j in range(n_out):
                residuals['y%d' % j] = diag[j] * outputs['y%d' % j] - sum(
                    M[j][i] * inputs['a%d' % i] for i in range(n_in))

        def solve_nonlinear(self, inputs, outputs):
            for j in range(n_out):
                outputs['y%d' % j] = sum(M[j][i] * inputs['a%d' % i] for i in range(n_in)) / diag[j]

        def solve_linear(self, d_outputs, d_residuals, mode):
            for j in range(n_out):
                if mode == 'fwd':
                    d_outputs['y%d' % j] = d_residuals['y%d' % j] / diag[j]
                else:
                    d_residuals['y%d' % j] = d_outputs['y%d' % j] / diag[j]

    p = om.Problem()
    model = p.model
    for i in range(n_in):
        model.add_subsystem('iw%d' % i, om.IndepVarComp('w', 1.0 + 0.5 * i))
    model.add_subsystem('T', TI() if spec['implicit'] else TE())
    for j in range(n_out):
        model.add_subsystem('s%d' % j, om.ExecComp('z = 2.0 * y'))
        model.connect('T.y%d' % j, 's%d.y' % j)
    for i in range(n_in):
        model.connect('iw%d.w' % i, 'T.a%d' % i)
    if spec['linear'] == 'direct':
        model.linear_solver = om.DirectSolver(assemble_jac=False)
    elif spec['linear'] == 'lbgs':
        model.linear_solver = om.LinearBlockGS(atol=1e-13, rtol=1e-13, maxiter=20, iprint=-1)
    model.add_design_var('iw%d.w' % spec['dv'])
    model.add_objective('s%d.z' % spec['obj'])
    return p


def expected(spec, q):
    """exact dense total for a query (None = the driver's own pair)"""
    M, diag = spec['M'], spec['diag']

    def dy(j, i):
        return M[j][i] / diag[j] if spec['implicit'] else float(M[j][i])
    if q is None:
        return [[2.0 * dy(spec['obj'], spec['dv'])]]
    return [[(2.0 if s else 1.0) * dy(j, i) for i in q['wrt']] for j, s in zip(q['of'], q['of_sink'])]


def run(spec, no_rel, log_wrap):
    """log_wrap(fn) -> (result, approx_log): c24's logging wrapper around the run."""
    import openmdao.utils.relevance as R
    saved = R._no_relevance
    R._no_relevance = bool(no_rel)
    try:
        def body():
            p = build(spec)
            p.setup(mode=spec['mode'], force_alloc_complex=True)
            p.run_model()
            Js = []
            for q in spec['hist']:
                if q is None:
                    J = p.compute_totals(return_format='array')
                else:
                    of = [('s%d.z' if s else 'T.y%d') % j for j, s in zip(q['of'], q['of_sink'])]
                    J = p.compute_totals(of=of, wrt=['iw%d.w' % i for i in q['wrt']],
                                         return_format='array')
                Js.append(np.atleast_2d(J).tolist())
            return Js
        with warnings.catch_warnings():
            warnings.simplefilter('ignore')
            return log_wrap(body)
    finally:
        R._no_relevance = saved
