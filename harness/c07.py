"""C07 — set_val and get_val round-trip through promotion, indices and units."""
import random
import warnings
from fractions import Fraction

import numpy as np

import genmodel as gm
from common import Property, rat, unrat, Infra

RTOL = 1e-12


def targets_of(md):
    """Addressable names whose value lives in an independent source (IVC or auto-IVC)."""
    tg = []
    for ci, c in enumerate(md['comps']):
        if c['kind'] == 'ivc':
            for od in c['outs']:
                key = ('ivc', ci, od['name'])
                names = {gm.out_root_name(md, ci, od['name']), gm.comp_path(c) + '.' + od['name']}
                for nm in sorted(names):
                    tg.append({'name': nm, 'src': key, 'shape': od['shape'], 'units': od['units'],
                               'src_shape': od['shape'], 'src_units': od['units'], 'chain': [],
                               'kind': 'output'})
    for k, cn in enumerate(md['conns']):
        ci, iname = cn['tgt']
        c = md['comps'][ci]
        idef = [i for i in c['ins'] if i['name'] == iname][0]
        absn = gm.comp_path(c) + '.' + iname
        names = {absn}
        if cn.get('tgt_root') and all(e is None for e in cn.get('level_idx', [])):
            # a promoted name addresses the promoted input of that level; it has the component
            # input's shape only when no src_indices are applied below it
            names.add(cn['tgt_root'])
        if cn['src'] is None:
            key = ('auto', k, None)
            for nm in sorted(names):
                tg.append({'name': nm, 'src': key, 'shape': idef['shape'], 'units': idef['units'],
                           'src_shape': idef['shape'], 'src_units': idef['units'], 'chain': [],
                           'kind': 'auto_ivc_input' + ('_promoted' if nm != absn else '')})
        elif md['comps'][cn['src'][0]]['kind'] == 'ivc' and not cn.get('feedback'):
            sci, soname = cn['src']
            sod = [o for o in md['comps'][sci]['outs'] if o['name'] == soname][0]
            pos, _ = gm.np_positions(sod['shape'], cn['chain'])
            if len(set(pos)) != len(pos):
                continue          # repeated source entries: excluded by the property (distinct positions)
            if any(len(set(l)) != len(l) for l in gm.chain_levels(sod['shape'], cn['chain'])):
                # an intermediate level repeats an element: the write-back through that level is
                # "last write wins" as well (documented in assumptions)
                continue
            for nm in sorted(names):
                # only the absolute name addresses the input itself when it is promoted to a name
                # shared with nothing else; both are offered
                tg.append({'name': nm, 'src': ('ivc', sci, soname), 'shape': idef['shape'],
                           'units': idef['units'], 'src_shape': sod['shape'],
                           'src_units': sod['units'], 'chain': cn['chain'],
                           'kind': 'connected_input' + ('_promoted' if nm != absn else '')})
    return tg


class C07(Property):
    pid = 'C07'
    workers = 8
    tolerance = RTOL
    required_theorems = ['C07_frame', 'C07_get_set', 'C07_dup_last_wins', 'C07_units_roundtrip',
                         'C07_phase_independent', 'C07_chain_positions']
    rule = ("cases: random models from harness/genmodel.py x random sequences (length 4-10) of "
            "set_val/get_val on addressable names (IndepVarComp outputs by promoted and absolute name, "
            "connected inputs by absolute and promoted name incl. src_indices chains, auto-IVC backed "
            "inputs) with random NumPy-style indices, compatible unit strings (incl. offset units) and "
            "dyadic values, interleaved with final_setup and run_model. After every call the value "
            "read back and the full content of every independent source array are compared with an "
            "exact NumPy/Fraction replay of the calls. Non-trivial: at least one set with indices or "
            "units; distinct by (seed, sequence).")
    assumptions = ["values compared at 1e-12 relative (unit factors are not dyadic)",
                   "sets whose selected source positions repeat are excluded (last write wins, no "
                   "round trip possible) - C07_dup_last_wins; the same for inputs whose src_indices "
                   "chain repeats an element at an intermediate level",
                   "an index applied to an input whose src_indices chain ends in a scalar selection is "
                   "not generated (OpenMDAO rejects it)"]
    trusted_extra = ["NumPy indexing as the reference for indices and src_indices"]
    level_text = ("The store behind set_val/get_val is modelled as sequential writes at flat positions "
                  "plus an affine unit map; proved in Lean for all arrays, position lists and values: "
                  "untouched entries keep their value, distinct positions read back what was written, "
                  "the unit map round-trips for any non-zero factor, the vector-backed and the "
                  "metadata-backed store are the same abstract store, and chained indices are one "
                  "gather. The real Problem API is tied by replaying random call sequences across the "
                  "three setup phases and comparing every source array after every call with the Lean "
                  "driver and with an independent NumPy/Fraction replay.")
    level_note = ("full for the store algebra; name resolution (promotion, auto-IVC) is tied only by the "
                  "differential runs; floats by tolerance.")
    technique = "Lean 4 proof (list induction, field algebra) + op-sequence differential replay"

    def cases(self, rng, tier):
        n = 60 if tier == 'quick' else 2000
        for _ in range(n):
            yield {'gen_seed': rng.randrange(10 ** 9), 'op_seed': rng.randrange(10 ** 9),
                   'opts': dict({'safe_indices': rng.random() < 0.6, 'n_comps': (1, 3),
                                 'scalar0d': rng.random() < 0.4},
                                **({'dyn_sibling': True, 'auto_ivc_p': 0.5}
                                   if rng.random() < 0.4 else {}))}

    def _md(self, case):
        md = gm.gen_md(random.Random(case['gen_seed']), **case['opts'])
        # tgt_root names are assigned when the problem is built; compute them without OpenMDAO
        for cn in md['conns']:
            c = md['comps'][cn['tgt'][0]]
            k = cn['promote_levels']
            depth_names = (c['group'].split('.') if c['group'] else []) + [c['name']]
            cur = cn['alias'] if k > 0 else cn['tgt'][1]
            cn['tgt_root'] = '.'.join(depth_names[:len(depth_names) - k] + [cur])
        return md

    def _ops(self, case, md):
        rng = random.Random(case['op_seed'])
        tg = targets_of(md)
        ops = []
        phase = 0
        for _ in range(rng.randint(4, 10)):
            r = rng.random()
            if r < 0.12 and phase == 0:
                ops.append({'op': 'final_setup'})
                phase = 1
                continue
            if r < 0.22:
                ops.append({'op': 'run_model'})
                phase = 2
                continue
            t = rng.choice(tg)
            autos = [x for x in tg if x['kind'].startswith('auto_ivc')]
            if md.get('dyn_sibling') and autos and rng.random() < 0.5:
                t = rng.choice(autos)
            zeros = [x for x in tg if len(x['src_shape']) == 0 and x['units'] and x['kind'] == 'output']
            if zeros and phase > 0 and rng.random() < 0.5:
                t = rng.choice(zeros)       # 0-d sources with units, once the vectors exist
            shape = t['shape']
            zero_d = bool(t['chain']) and gm.np_positions(t['src_shape'], t['chain'])[1] == []
            if rng.random() < 0.35 or zero_d or len(shape) == 0:
                # (an input whose src_indices chain ends in a scalar selection is addressed whole)
                idx = None
                sel_shape = shape
            else:
                idx = gm.rand_index(rng, shape, False, safe=rng.random() < 0.7)
                a = np.arange(int(np.prod(shape))).reshape(shape)[gm.spec_to_py(idx)]
                if len(set(np.ravel(a).tolist())) != np.size(a) or np.size(a) == 0:
                    idx = None
                    sel_shape = shape
                else:
                    sel_shape = list(np.shape(a))
            units = gm.compatible_units(rng, t['units']) if t['units'] and \
                rng.random() < (0.85 if len(t['src_shape']) == 0 else 0.5) else None
            nsel = int(np.prod(sel_shape)) if len(sel_shape) else 1
            if rng.random() < 0.3:
                vals = [rat(Fraction(rng.randint(-40, 40), 4))]       # scalar broadcast
                scalar = True
            else:
                vals = [rat(Fraction(rng.randint(-40, 40), 4)) for _ in range(nsel)]
                scalar = False
            ops.append({'op': 'set', 'target': tg.index(t), 'indices': idx, 'units': units,
                        'vals': vals, 'scalar': scalar, 'sel_shape': sel_shape})
        return tg, ops

    def _src_positions(self, t, idx):
        chain = list(t['chain'])
        base, shp = gm.np_positions(t['src_shape'], chain)
        if idx is None:
            return base
        a = np.asarray(base).reshape(t['shape'])[gm.spec_to_py(idx)]
        return np.ravel(a).tolist()

    def run_impl(self, case):
        md = self._md(case)
        tg, ops = self._ops(case, md)
        res = {'steps': []}
        try:
            with warnings.catch_warnings():
                warnings.simplefilter('ignore')
                p, info = gm.build_problem(md)
                p.setup()
                gm.set_auto_ivc_values(p, md)
                srcs = self._sources(md)
                vectors = False
                for o in ops:
                    st = {}
                    try:
                        if o['op'] == 'final_setup':
                            p.final_setup()
                            vectors = True
                        elif o['op'] == 'run_model':
                            p.run_model()
                            vectors = True
                        else:
                            t = tg[o['target']]
                            v = np.array([float(unrat(x)) for x in o['vals']])
                            v = float(v[0]) if o['scalar'] else v.reshape(o['sel_shape'])
                            kw = {}
                            if o['units']:
                                kw['units'] = o['units']
                            if o['indices'] is not None:
                                kw['indices'] = gm.spec_to_py(o['indices'])
                            p.set_val(t['name'], v, **kw)
                            st['get'] = np.ravel(p.get_val(t['name'], **kw)).tolist()
                            if vectors and t['kind'] in ('connected_input', 'auto_ivc_input'):
                                # an input addressed by its absolute name: once the vectors exist
                                # the input itself holds the value too (in its own units)
                                st['get_input'] = np.ravel(p.get_val(t['name'], from_src=False,
                                                                     **kw)).tolist()
                    except Exception as e:
                        st['error'] = type(e).__name__
                        st['msg'] = str(e)[:200]
                    st['sources'] = {k: np.ravel(p.get_val(nm)).tolist() for k, (nm, _) in srcs.items()}
                    res['steps'].append(st)
        except Exception as e:
            res['error'] = type(e).__name__
            res['msg'] = str(e)[:300]
        return res

    def _sources(self, md):
        """key string -> (name usable with get_val, initial exact values)"""
        srcs = {}
        for ci, c in enumerate(md['comps']):
            if c['kind'] == 'ivc':
                for od in c['outs']:
                    srcs['ivc:%d:%s' % (ci, od['name'])] = (
                        gm.comp_path(c) + '.' + od['name'], [unrat(x) for x in od['val']])
        for k, cn in enumerate(md['conns']):
            if cn['src'] is None:
                c = md['comps'][cn['tgt'][0]]
                srcs['auto:%d:None' % k] = (gm.comp_path(c) + '.' + cn['tgt'][1],
                                            [unrat(x) for x in cn['val']])
        return srcs

    def _expected(self, case):
        """Exact replay: list per step of (expected get or None, expected sources)."""
        md = self._md(case)
        tg, ops = self._ops(case, md)
        state = {k: list(v) for k, (nm, v) in self._sources(md).items()}
        out = []
        for o in ops:
            eg = None
            if o['op'] == 'set':
                t = tg[o['target']]
                key = '%s:%s:%s' % (t['src'][0], t['src'][1], t['src'][2])
                pos = self._src_positions(t, o['indices'])
                vals = [unrat(x) for x in o['vals']]
                if o['scalar']:
                    vals = vals * len(pos)
                uu = o['units'] or t['units']
                fac, off = gm.unit_conv(uu, t['src_units']) if (uu and t['src_units']) else \
                    (Fraction(1), Fraction(0))
                for q, v in zip(pos, vals):
                    state[key][q] = (v + off) * fac
                eg = vals
            out.append((eg, {k: list(v) for k, v in state.items()}))
        return out

    @staticmethod
    def _close(a, b):
        if len(a) != len(b):
            return False
        return all(abs(x - float(y)) <= RTOL * max(1.0, abs(float(y))) for x, y in zip(a, b))

    def oracle(self, case, impl):
        if 'error' in impl:
            return {'what': 'setup raised %s' % impl['error'], 'msg': impl.get('msg')}
        md = self._md(case)
        tg, ops = self._ops(case, md)
        exp = self._expected(case)
        phase = 'pre_final_setup'
        for k, (o, st, (eg, es)) in enumerate(zip(ops, impl['steps'], exp)):
            if o['op'] == 'final_setup':
                phase = 'post_final_setup'
            elif o['op'] == 'run_model':
                phase = 'post_run_model'
            info = {'step': k, 'op': o, 'phase': phase,
                    'target_kind': tg[o['target']]['kind'] if o['op'] == 'set' else None}
            if 'error' in st:
                return dict(info, what='%s raised %s' % (o['op'], st['error']), msg=st.get('msg'))
            if eg is not None and not self._close(st['get'], eg):
                return dict(info, what='get_val after set_val does not return the value set',
                            got=st['get'], expected=[float(x) for x in eg])
            if eg is not None and 'get_input' in st and not self._close(st['get_input'], eg):
                return dict(info, what='get_val(from_src=False) after set_val on an absolute input '
                            'name does not return the value set', got=st['get_input'],
                            expected=[float(x) for x in eg])
            for key, vals in es.items():
                if not self._close(st['sources'][key], vals):
                    return dict(info, what='an entry that was not addressed changed (or the addressed '
                                'one holds the wrong value)', source=key, got=st['sources'][key],
                                expected=[float(x) for x in vals])
        return None

    def signature(self, case, impl, failure):
        sig = {'what': failure.get('what'), 'phase': failure.get('phase'),
               'target_kind': failure.get('target_kind')}
        op = failure.get('op') or {}
        if op.get('op') == 'set' and op.get('indices') is not None:
            md = self._md(case)
            tg = targets_of(md)
            t = tg[op['target']] if op.get('target') is not None and op['target'] < len(tg) else None
            # a (1,)-shaped input fed by a 0-d source, addressed with indices
            sig['src_0d_indexed'] = bool(t is not None and len(t['src_shape']) == 0)
        return sig

    def nontrivial(self, case, impl):
        md = self._md(case)
        tg, ops = self._ops(case, md)
        return any(o['op'] == 'set' and (o['indices'] is not None or o['units']) for o in ops)

    def bucket(self, case, impl):
        md = self._md(case)
        tg, ops = self._ops(case, md)
        b = ['impl_error' if 'error' in impl else 'impl_ok']
        phase = 'pre'
        for o in ops:
            if o['op'] != 'set':
                phase = 'final' if o['op'] == 'final_setup' else 'run'
                b.append('op=' + o['op'])
                continue
            t = tg[o['target']]
            b.append('set:%s:phase=%s' % (t['kind'], phase))
            b.append('indices=%s' % (o['indices']['t'] if o['indices'] else None))
            if o['units']:
                b.append('with_units')
            if t['chain']:
                b.append('through_src_indices')
        return b

    # -- model -----------------------------------------------------------------------------------
    def model_requests(self, case, impl):
        if 'error' in impl:
            return []
        md = self._md(case)
        tg, ops = self._ops(case, md)
        srcs = self._sources(md)
        self_keys = sorted(srcs)
        reqs = []
        for key in self_keys:
            lops = []
            for o in ops:
                if o['op'] != 'set':
                    continue
                t = tg[o['target']]
                if '%s:%s:%s' % (t['src'][0], t['src'][1], t['src'][2]) != key:
                    continue
                pos = self._src_positions(t, o['indices'])
                vals = list(o['vals']) * (len(pos) if o['scalar'] else 1)
                uu = o['units'] or t['units']
                fac, off = gm.unit_conv(uu, t['src_units']) if (uu and t['src_units']) else \
                    (Fraction(1), Fraction(0))
                lops.append({'pos': pos, 'vals': vals, 'fac': rat(fac), 'off': rat(off)})
            reqs.append({'op': 'store', 'init': [rat(x) for x in srcs[key][1]], 'ops': lops})
        return reqs

    def compare(self, case, impl, answers):
        md = self._md(case)
        tg, ops = self._ops(case, md)
        srcs = self._sources(md)
        keys = sorted(srcs)
        for key, a in zip(keys, answers):
            j = 0
            for o, st in zip(ops, impl['steps']):
                if o['op'] != 'set':
                    continue
                t = tg[o['target']]
                if '%s:%s:%s' % (t['src'][0], t['src'][1], t['src'][2]) != key:
                    continue
                step = a['steps'][j]
                j += 1
                if 'error' in st:
                    return 'implementation raised %s, the model performs the set' % st['error']
                marr = [unrat(x) for x in step['arr']]
                if not self._close(st['sources'][key], marr):
                    return 'source %s after set: implementation %s, model %s' % (
                        key, st['sources'][key], [float(x) for x in marr])
                mget = [unrat(x) for x in step['get']]
                if not self._close(st['get'], mget):
                    return 'get_val: implementation %s, model %s' % (st['get'],
                                                                      [float(x) for x in mget])
        return None


PROP = C07()
