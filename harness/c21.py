"""C21 — optimizer success implies a feasible reported design (ScipyOptimizeDriver).

A case is a strictly convex QP with a *planted* optimum, built as a real OpenMDAO model:

    minimise  1/2 x'Qx + c'x          (Q integer SPD, n = 2..5)
    s.t.      lower <= phi_i(a_i.x + d_i) <= upper   or   = equals      (per element)
              bounds on x

`phi_i` is the identity (affine row, may be declared `linear=True`) or the increasing cubic
`t + t^3/64` (genuinely nonlinear for the optimizer, but its level sets are hyperplanes, so the
feasible set is a polyhedron and the exact optimum is known).  The rows live in 1-2 array outputs
of one harness component with analytic partials; constraints select elements with `indices`
(+ `alias`), carry per-element bound patterns (scalar / array, +-INF_BOUND for "not set",
non-uniform patterns), `scaler/adder` or `ref/ref0` (scalar / array), `units`; design variables
carry bounds, scaling and units as well.  Every case is run under two different driver scalings.
About a quarter of the cases (and the first six of every stream) are parameter studies: the same
Problem / driver is run two or three times, with the rows and constants of the outputs and the
linear term of the objective - ordinary non-design inputs - changed by `set_val` in between; every
run has its own planted optimum and is judged like a case of its own.

`scipy.optimize.minimize` as imported by `openmdao.drivers.scipy_optimizer` is wrapped (`Capture`):
the `constraints` / `bounds` the real driver built are kept and every callback call is logged.

* direct oracle (no Lean): on `driver.result.success` (1) the model (`get_val`) sits at `result.x`
  unscaled, (2) every element of every constraint is within its bounds (1e-6, model units)
  according to `Problem.get_val`, (3) for SLSQP / trust-constr the design is within 1e-4 of the
  exact optimum, certified in exact `Fraction` arithmetic (KKT certificate check; active-set
  enumeration as cross-check on small affine cases) - for both driver scalings, which gives (4).
  Third-party attribution is explicit and validated per run: a failure is only excused when the
  callbacks were verifiably functions of their argument, the Jacobian callbacks agree with finite
  differences, scipy's own records are satisfied at `result.x` and the true optimum is admissible
  for the records scipy was given (then the optimizer itself stopped early).
* correspondence (Lean driver, exact rationals): the records `OMV.C21` builds from the same bound
  patterns (old-style dicts incl. the `dbl` flag, new-style objects, design-variable bounds) must
  behave like the captured ones - values / slacks and Jacobian rows at `result.x`, at the planted
  optimum and at two probe designs, against exact evaluation of the case; the callback state
  machine must predict at which design every sampled callback answer was really computed, and
  where the model is left.
* tie: which variant of each of the seven modelled mechanisms /repo contains is probed on tiny
  fixed problems (`detect_variant`) and handed to the Lean driver (`Variant`).
"""
import contextlib
import io
import itertools
import warnings
from fractions import Fraction

import numpy as np

from common import Property, Infra, rat, unrat, rats

F = Fraction
INF = F(10) ** 30
OPTS = ['SLSQP', 'COBYLA', 'trust-constr']
OLD_STYLE = ('SLSQP', 'COBYLA')
TOL_OPT = 1e-9            # tolerance handed to the optimizers
TOL_CONTRACT = 2e-8       # what "success" guarantees for scipy's own constraint functions
TOL_FEAS = 1e-6           # oracle: feasibility in model units
TOL_AT = 1e-6             # oracle: model sits at result.x
TOL_OPTIMUM = 1e-4        # oracle: distance to exact optimum
TOL_REC = 1e-9            # correspondence: record values, relative

# (source units, driver units, exact factor  driver = factor * source)
UNITS = [(None, None, F(1)), ('m', 'cm', F(100)), ('m', 'mm', F(1000)), ('cm', 'm', F(1, 100)),
         ('m', None, F(1)), ('km', 'm', F(1000))]
POS_SCALERS = [F(1, 4), F(1, 2), F(2), F(4), F(8), F(3), F(1, 8)]
DY = [F(k, 4) for k in range(-12, 13)]


def phi(kind, t):
    return t if kind == 'lin' else t + t * t * t / 64


def dphi(kind, t):
    return F(1) if kind == 'lin' else 1 + 3 * t * t / 64


def bcast(v, n, default=None):
    """User bound / scaling value (None | "n/d" | list of ("n/d" | None)) -> list of n Fractions."""
    if v is None:
        return [default] * n
    if isinstance(v, list):
        out = [default if e is None else unrat(e) for e in v]
        if len(out) == 1 and n > 1:
            out = out * n
        return out
    return [unrat(v)] * n


def adder_scaler(sc, n):
    """determine_adder_scaler, exactly, per element."""
    if 'ref' in sc or 'ref0' in sc:
        ref = bcast(sc.get('ref'), n, F(1))
        ref0 = bcast(sc.get('ref0'), n, F(0))
        return [-b for b in ref0], [1 / (a - b) for a, b in zip(ref, ref0)]
    return bcast(sc.get('adder'), n, F(0)), bcast(sc.get('scaler'), n, F(1))


def has_negative(sc):
    """does this scaling spec have a negative total scaler somewhere?"""
    n = max([len(v) for v in sc.values() if isinstance(v, list)] + [1])
    return any(t < 0 for t in adder_scaler(sc, n)[1])


def ufactor(units):
    for s, d, f in UNITS:
        if [s, d] == list(units):
            return f
    raise Infra('unknown units pair %r' % (units,))


# ------------------------------------------------------------------------------------------------
# exact semantics of a case (independent of OpenMDAO and of the Lean model)

class Exact:
    def __init__(self, case):
        self.case = case
        self.n = case['n']
        self.Q = [[F(v) for v in row] for row in case['Q']]
        self.c = [unrat(v) for v in case['c']]
        self.outs = {o['name']: o for o in case['outs']}

    def out_vals(self, x):
        """model-unit values of every component output at design x (model units)."""
        res = {}
        for o in self.case['outs']:
            vals = []
            for row, d, k in zip(o['rows'], o['d'], o['phi']):
                t = sum(F(a) * xi for a, xi in zip(row, x)) + unrat(d)
                vals.append(phi(k, t))
            res[o['name']] = vals
        return res

    def f(self, x):
        return sum(x[i] * self.Q[i][j] * x[j] for i in range(self.n) for j in range(self.n)) / 2 + \
            sum(a * b for a, b in zip(self.c, x))

    def con_elems(self, con):
        """[(position in output, lower, upper, equals)] in *constraint units*; None = not set."""
        o = self.outs[con['out']]
        m = len(o['rows'])
        idx = list(range(m)) if con['indices'] is None else [i % m for i in con['indices']]
        k = len(idx)
        lo = bcast(con['lower'], k)
        hi = bcast(con['upper'], k)
        eq = bcast(con['equals'], k)
        out = []
        for j, i in enumerate(idx):
            l = None if (lo[j] is None or lo[j] <= -INF) else lo[j]
            h = None if (hi[j] is None or hi[j] >= INF) else hi[j]
            out.append((i, l, h, eq[j]))
        return out

    def dv_slices(self):
        res, i = [], 0
        for dv in self.case['dvs']:
            res.append((dv, i, i + dv['size']))
            i += dv['size']
        return res

    def side_constraints(self):
        """All one-sided affine-equivalent conditions, as (kind, sign, con key, value fn, grad fn,
        bound in model units).  kind in 'lo','hi','eq','xlo','xhi'."""
        res = []
        for ci, con in enumerate(self.case['cons']):
            o = self.outs[con['out']]
            u = ufactor(o['units'])
            for j, (i, l, h, e) in enumerate(self.con_elems(con)):
                if e is not None:
                    res.append(('eq', (ci, j), o, i, e / u))
                else:
                    if l is not None:
                        res.append(('lo', (ci, j), o, i, l / u))
                    if h is not None:
                        res.append(('hi', (ci, j), o, i, h / u))
        for dv, a, b in self.dv_slices():
            u = ufactor(dv['units'])
            lo = bcast(dv['lower'], dv['size'])
            hi = bcast(dv['upper'], dv['size'])
            for k in range(dv['size']):
                if lo[k] is not None and lo[k] > -INF:
                    res.append(('xlo', (dv['name'], k), None, a + k, lo[k] / u))
                if hi[k] is not None and hi[k] < INF:
                    res.append(('xhi', (dv['name'], k), None, a + k, hi[k] / u))
        return res

    def value_grad(self, sc, x):
        kind, key, o, i, b = sc
        if o is None:
            g = [F(0)] * self.n
            g[i] = F(1)
            return x[i], g
        t = sum(F(a) * xi for a, xi in zip(o['rows'][i], x)) + unrat(o['d'][i])
        k = o['phi'][i]
        return phi(k, t), [dphi(k, t) * F(a) for a in o['rows'][i]]

    def violation(self, x):
        """max over all conditions of the (model unit) violation at x (exact)."""
        worst = F(0)
        for sc in self.side_constraints():
            v, _ = self.value_grad(sc, x)
            kind, b = sc[0], sc[4]
            if kind in ('lo', 'xlo'):
                worst = max(worst, b - v)
            elif kind in ('hi', 'xhi'):
                worst = max(worst, v - b)
            else:
                worst = max(worst, abs(v - b))
        return worst

    def check_certificate(self):
        """KKT certificate (x*, multipliers) checked exactly.  Returns x* or raises Infra."""
        cert = self.case['cert']
        x = [unrat(v) for v in cert['x']]
        if self.violation(x) != 0:
            raise Infra('certificate: x* infeasible by %s' % self.violation(x))
        r = [sum(self.Q[i][j] * x[j] for j in range(self.n)) + self.c[i] for i in range(self.n)]
        sides = {(s[0], tuple(s[1]) if isinstance(s[1], (list, tuple)) else s[1]): s
                 for s in self.side_constraints()}
        for kind, key, lam in cert['mult']:
            key = tuple(key)
            lam = unrat(lam)
            s = sides.get((kind, key))
            if s is None:
                raise Infra('certificate: multiplier on a bound that is not set %s %s' % (kind, key))
            v, g = self.value_grad(s, x)
            if v != s[4]:
                raise Infra('certificate: multiplier on inactive condition %s %s' % (kind, key))
            if kind != 'eq' and lam < 0:
                raise Infra('certificate: negative multiplier')
            sign = -1 if kind in ('lo', 'xlo') else 1
            for i in range(self.n):
                r[i] += sign * lam * g[i]
        if any(v != 0 for v in r):
            raise Infra('certificate: stationarity residual %s' % r)
        return x

    # -- cross-check: exact optimum by enumeration of active sets (affine rows only) ---------------
    def enumerate_optimum(self, max_sets=4000):
        sides = self.side_constraints()
        rows = []
        for s in sides:
            kind, key, o, i, b = s
            if o is None:
                a = [F(0)] * self.n
                a[i] = F(1)
                rows.append((kind, a, b))
            else:
                if o['phi'][i] != 'lin':
                    return None
                rows.append((kind, [F(v) for v in o['rows'][i]], b - unrat(o['d'][i])))
        eqs = [k for k, r in enumerate(rows) if r[0] == 'eq']
        ineqs = [k for k, r in enumerate(rows) if r[0] != 'eq']
        count = 0
        best = None
        for size in range(0, self.n - len(eqs) + 1):
            for act in itertools.combinations(ineqs, size):
                count += 1
                if count > max_sets:
                    return None
                A = [rows[k] for k in eqs + list(act)]
                sol = self._kkt_solve(A)
                if sol is None:
                    continue
                x, lam = sol
                ok = True
                for (kind, a, b), l in zip(A, lam):
                    # stationarity was solved as  Qx + c + sum l*a = 0
                    if kind in ('lo', 'xlo') and l > 0:
                        ok = False
                    if kind in ('hi', 'xhi') and l < 0:
                        ok = False
                if not ok:
                    continue
                for kind, a, b in rows:
                    v = sum(p * q for p, q in zip(a, x))
                    if (kind in ('lo', 'xlo') and v < b) or (kind in ('hi', 'xhi') and v > b) or \
                            (kind == 'eq' and v != b):
                        ok = False
                        break
                if ok:
                    return x
        return best

    def _kkt_solve(self, A):
        n, m = self.n, len(A)
        N = n + m
        M = [[F(0)] * (N + 1) for _ in range(N)]
        for i in range(n):
            for j in range(n):
                M[i][j] = self.Q[i][j]
            M[i][N] = -self.c[i]
            for k, (kind, a, b) in enumerate(A):
                M[i][n + k] = a[i]
        for k, (kind, a, b) in enumerate(A):
            for j in range(n):
                M[n + k][j] = a[j]
            M[n + k][N] = b
        # Gauss-Jordan
        for col in range(N):
            piv = next((r for r in range(col, N) if M[r][col] != 0), None)
            if piv is None:
                return None
            M[col], M[piv] = M[piv], M[col]
            pv = M[col][col]
            M[col] = [v / pv for v in M[col]]
            for r in range(N):
                if r != col and M[r][col] != 0:
                    f = M[r][col]
                    M[r] = [a - f * b for a, b in zip(M[r], M[col])]
        sol = [M[r][N] for r in range(N)]
        return sol[:n], sol[n:]


# ------------------------------------------------------------------------------------------------
# the real model

def make_comp(case):
    """One explicit component: design variables -> objective and constraint outputs.  The data a
    parameter study may change between runs of the same Problem are ordinary (non-design) inputs:
    `p_c` (linear term of the objective), `A_<out>` and `d_<out>` (rows and constants of every
    output); the outputs stay affine / cubic-of-affine in the design variables."""
    import openmdao.api as om

    class QPComp(om.ExplicitComponent):
        def setup(self):
            n = case['n']
            for dv in case['dvs']:
                self.add_input(dv['name'], val=np.zeros(dv['size']), units=dv['units'][0])
            self.add_input('p_c', val=np.array([float(unrat(v)) for v in case['c']]))
            self.add_output('f', val=0.0, units=case['obj']['units'][0])
            for o in case['outs']:
                m = len(o['rows'])
                self.add_input('A_' + o['name'], val=np.array(o['rows'], dtype=float).reshape(m, n))
                self.add_input('d_' + o['name'], val=np.array([float(unrat(v)) for v in o['d']]))
                self.add_output(o['name'], val=np.zeros(m), units=o['units'][0])
            dvn = [dv['name'] for dv in case['dvs']]
            self.declare_partials(['f'] + [o['name'] for o in case['outs']], dvn)
            self.Q = np.array(case['Q'], dtype=float)
            self.names = [o['name'] for o in case['outs']]
            self.cub = {o['name']: np.array([k == 'cub' for k in o['phi']]) for o in case['outs']}

        def _x(self, inputs):
            return np.concatenate([np.asarray(inputs[dv['name']]).ravel() for dv in case['dvs']])

        def compute(self, inputs, outputs):
            x = self._x(inputs)
            outputs['f'] = 0.5 * x @ self.Q @ x + inputs['p_c'] @ x
            for name in self.names:
                t = inputs['A_' + name] @ x + inputs['d_' + name]
                outputs[name] = np.where(self.cub[name], t + t ** 3 / 64.0, t)

        def compute_partials(self, inputs, partials):
            x = self._x(inputs)
            gf = self.Q @ x + inputs['p_c']
            i = 0
            for dv in case['dvs']:
                sl = slice(i, i + dv['size'])
                partials['f', dv['name']] = gf[sl].reshape(1, -1)
                for name in self.names:
                    A = inputs['A_' + name]
                    t = A @ x + inputs['d_' + name]
                    dp = np.where(self.cub[name], 1.0 + 3.0 * t ** 2 / 64.0, 1.0)
                    partials[name, dv['name']] = dp[:, None] * A[:, sl]
                i += dv['size']

    return QPComp()


def stage_cases(case):
    """A case with `stages` is a parameter study on one Problem: the base data, then for every stage
    new rows / constants / linear term / start design (bounds and scaling are fixed at setup).
    Every stage is a complete case of its own (own planted optimum)."""
    out = [case]
    for st in case.get('stages', []):
        ck = dict(case)
        ck['outs'] = [dict(o, rows=st['rows'][o['name']], d=st['d'][o['name']]) for o in case['outs']]
        for key in ('c', 'x0', 'cert', 'probes'):
            ck[key] = st[key]
        ck.pop('stages', None)
        out.append(ck)
    return out


def load_stage(p, ck):
    """what a user does between two runs of a parameter study: set_val on non-design inputs and on
    the start design"""
    n = ck['n']
    p.set_val('p_c', np.array([float(unrat(v)) for v in ck['c']]))
    for o in ck['outs']:
        p.set_val('A_' + o['name'], np.array(o['rows'], dtype=float).reshape(len(o['rows']), n))
        p.set_val('d_' + o['name'], np.array([float(unrat(v)) for v in o['d']]))
    i = 0
    for dv in ck['dvs']:
        p.set_val(dv['name'], np.array([float(unrat(v)) for v in ck['x0'][i:i + dv['size']]]))
        i += dv['size']


def fl(v):
    """wire value -> float / ndarray / None  (None inside arrays is handled by the caller)."""
    if v is None:
        return None
    if isinstance(v, list):
        return np.array([float(unrat(e)) for e in v])
    return float(unrat(v))


def bound_arg(v, is_lower):
    if v is None:
        return None
    if isinstance(v, list):
        return np.array([(-1e30 if is_lower else 1e30) if e is None else float(unrat(e)) for e in v])
    return float(unrat(v))


def con_name(con):
    return con['alias'] or con['out']


TRACE_CAP = 600           # callback calls sent to the Lean state machine per run
N_SAMPLES = 14            # callback calls re-evaluated per run


class Capture:
    """`scipy.optimize.minimize` as imported by openmdao.drivers.scipy_optimizer, wrapped: keeps the
    `constraints` / `bounds` the driver built and logs every callback call (kind, design, value).
    kinds: 'o' objective, 'g' objective gradient, 'c' constraint value, 'j' constraint Jacobian."""

    def __init__(self, dry=False):
        import openmdao.drivers.scipy_optimizer as so
        self.so = so
        self.orig = so.minimize
        self.dry = dry
        self.kw = None
        self.res = None
        self.x0 = None
        self.fixed = {}
        self.ids = {}
        self.xs = []
        self.log = []        # (kind, record index or None, design id, value, last obj id, last grad id)
        self.last_obj = None
        self.last_grad = None

    def xid(self, x):
        x = np.array(x, dtype=float)
        if self.x0 is not None and x.size != self.x0.size and self.fixed and \
                x.size == self.x0.size - len(self.fixed):
            # scipy's COBYLA hands the constraint functions the design without the variables
            # that are fixed by equal bounds: put them back
            full = np.empty(self.x0.size)
            free = [k for k in range(self.x0.size) if k not in self.fixed]
            full[free] = x
            for k, v in self.fixed.items():
                full[k] = v
            x = full
        k = x.tobytes()
        if k not in self.ids:
            self.ids[k] = len(self.xs)
            self.xs.append(x.copy())
        return self.ids[k]

    def _note(self, kind, rec, x, val):
        i = self.xid(x)
        if kind == 'o':
            self.last_obj = i
        self.log.append((kind, rec, i, np.array(val, dtype=float).copy(), self.last_obj,
                         self.last_grad))
        # `_gradfunc` linearizes the model where it sits (the latest objective design)
        if kind == 'g' or (kind == 'j' and self.last_grad is None):
            self.last_grad = self.last_obj

    def __enter__(self):
        from scipy.optimize import NonlinearConstraint, OptimizeResult

        def wrapped(fun, x0, **kw):
            self.kw = dict(kw)
            self.x0 = np.array(x0, dtype=float)
            b = kw.get('bounds')
            self.fixed = {}
            if isinstance(b, (list, tuple)):
                self.fixed = {k: float(l) for k, (l, h) in enumerate(b)
                              if l is not None and h is not None and float(l) == float(h)}
            self.last_obj = self.xid(self.x0)     # the driver has just run the model there
            self.start = self.last_obj
            if self.dry:
                # no optimization; 'shift' pretends the optimizer returns a design it never evaluated
                x = self.x0 + (0.25 if self.dry == 'shift' else 0.0)
                self.res = OptimizeResult(x=x, success=False, message='dry run')
                return self.res

            def f(x, *a):
                v = fun(x, *a)
                self._note('o', None, x, v)
                return v
            kw2 = dict(kw)
            jac = kw.get('jac')
            if callable(jac):
                def gf(x, *a):
                    v = jac(x, *a)
                    self._note('g', None, x, v)
                    return v
                kw2['jac'] = gf
            cons = []
            for k, c in enumerate(kw.get('constraints') or []):
                if isinstance(c, dict):
                    d = dict(c)
                    lin = self.is_linear(c)

                    def cf(x, *a, _c=c, _k=k):
                        v = _c['fun'](x, *a)
                        self._note('c', _k, x, v)
                        return v
                    d['fun'] = cf
                    if 'jac' in c:
                        def cj(x, *a, _c=c, _k=k, _lin=lin):
                            v = _c['jac'](x, *a)
                            if not _lin:
                                self._note('j', _k, x, v)
                            return v
                        d['jac'] = cj
                    cons.append(d)
                elif isinstance(c, NonlinearConstraint):
                    def cf(x, _c=c, _k=k):
                        v = _c.fun(x)
                        self._note('c', _k, x, v)
                        return v

                    def cj(x, _c=c, _k=k):
                        v = _c.jac(x)
                        self._note('j', _k, x, v)
                        return v
                    cons.append(NonlinearConstraint(
                        cf, c.lb, c.ub, jac=cj, hess=c.hess, keep_feasible=c.keep_feasible,
                        finite_diff_rel_step=c.finite_diff_rel_step,
                        finite_diff_jac_sparsity=c.finite_diff_jac_sparsity))
                else:
                    cons.append(c)
            kw2['constraints'] = cons
            self.res = self.orig(f, x0, **kw2)
            return self.res
        self.so.minimize = wrapped
        return self

    def is_linear(self, c):
        """old-style dict of a constraint the driver treats as linear (constant cached Jacobian)."""
        try:
            name = c['args'][0]
            return bool(self.driver._cons[name].get('linear')) and \
                self.driver._lincongrad_cache is not None
        except Exception:
            return False

    def __exit__(self, *a):
        self.so.minimize = self.orig


def build_problem(case, scal):
    import openmdao.api as om
    p = om.Problem(reports=False)
    p.model.add_subsystem('comp', make_comp(case), promotes=['*'])
    for dv, sc in zip(case['dvs'], scal['dvs']):
        kw = {k: fl(v) for k, v in sc.items()}
        lo, hi = bound_arg(dv['lower'], True), bound_arg(dv['upper'], False)
        if lo is not None:
            kw['lower'] = lo
        if hi is not None:
            kw['upper'] = hi
        if dv['units'][1] is not None:
            kw['units'] = dv['units'][1]
        p.model.add_design_var(dv['name'], **kw)
    kw = {k: fl(v) for k, v in scal['obj'].items()}
    if case['obj']['units'][1] is not None:
        kw['units'] = case['obj']['units'][1]
    p.model.add_objective('f', **kw)
    outs = {o['name']: o for o in case['outs']}
    for con, sc in zip(case['cons'], scal['cons']):
        kw = {k: fl(v) for k, v in sc.items()}
        for key, isl in (('lower', True), ('upper', False), ('equals', False)):
            b = bound_arg(con[key], isl)
            if b is not None:
                kw[key] = b
        if con['indices'] is not None:
            kw['indices'] = list(con['indices'])
        if con['alias'] is not None:
            kw['alias'] = con['alias']
        if con['linear']:
            kw['linear'] = True
        u = outs[con['out']]['units'][1]
        if u is not None:
            kw['units'] = u
        p.model.add_constraint(con['out'], **kw)
    opt = case['opt']
    p.driver = om.ScipyOptimizeDriver(optimizer=opt, disp=False, tol=TOL_OPT,
                                      maxiter=case.get('maxiter', 400))
    if opt == 'COBYLA':
        p.driver.opt_settings['catol'] = TOL_OPT
    for key, val in case.get('opt_settings', {}).items():
        p.driver.opt_settings[key] = val
    p.setup()
    i = 0
    for dv in case['dvs']:
        p.set_val(dv['name'], np.array([float(unrat(v)) for v in case['x0'][i:i + dv['size']]]))
        i += dv['size']
    return p


def dv_maps(case, scal):
    """per flat design element: (unit factor, adder, scaler) as Fractions"""
    out = []
    for dv, sc in zip(case['dvs'], scal['dvs']):
        u = ufactor(dv['units'])
        ad, sl = adder_scaler(sc, dv['size'])
        out.extend((u, ad[k], sl[k]) for k in range(dv['size']))
    return out


def scale_x(case, scal, x):
    """model-unit design -> driver vector, by the documented affine map (exact on Fractions)."""
    return [(u * xi + a) * s for (u, a, s), xi in zip(dv_maps(case, scal), x)]


def unscale_x(case, scal, xd):
    """driver vector -> model units (exact on Fractions)."""
    return [(F(v) / s - a) / u for (u, a, s), v in zip(dv_maps(case, scal), xd)]


def exact_driver_view(case, scal, xd):
    """Everything the optimizer should see at driver design `xd` (Fractions), from the case alone:
    objective value and gradient, and per constraint the scaled values, Jacobian rows, A.x."""
    ex = Exact(case)
    maps = dv_maps(case, scal)
    x = unscale_x(case, scal, xd)
    n = case['n']
    uf = ufactor(case['obj']['units'])
    af, sf = adder_scaler(scal['obj'], 1)
    fval = (uf * ex.f(x) + af[0]) * sf[0]
    gradf = [sf[0] * uf * (sum(ex.Q[k][j] * x[j] for j in range(n)) + ex.c[k]) /
             (maps[k][2] * maps[k][0]) for k in range(n)]
    # magnitudes of the terms that are added up (floating-point comparisons are relative to these)
    fmag = abs(sf[0]) * (abs(uf) * (sum(abs(x[i] * ex.Q[i][j] * x[j]) for i in range(n)
                                        for j in range(n)) / 2 +
                                    sum(abs(a * b) for a, b in zip(ex.c, x))) + abs(af[0]))
    gmag = [abs(sf[0] * uf / (maps[k][2] * maps[k][0])) *
            (sum(abs(ex.Q[k][j] * x[j]) for j in range(n)) + abs(ex.c[k])) for k in range(n)]
    cons = []
    for con, sc in zip(case['cons'], scal['cons']):
        o = ex.outs[con['out']]
        u = ufactor(o['units'])
        m = len(o['rows'])
        idx = list(range(m)) if con['indices'] is None else [i % m for i in con['indices']]
        ad, sl = adder_scaler(sc, len(idx))
        g, rows, ax, mag = [], [], [], []
        for j, i in enumerate(idx):
            t = sum(F(a) * xi for a, xi in zip(o['rows'][i], x)) + unrat(o['d'][i])
            k = o['phi'][i]
            g.append((u * phi(k, t) + ad[j]) * sl[j])
            tm = sum(abs(F(a) * xi) for a, xi in zip(o['rows'][i], x)) + abs(unrat(o['d'][i]))
            mag.append(abs(sl[j]) * (abs(u) * phi(k, tm) + abs(ad[j])))
            row = [sl[j] * u * dphi(k, t) * F(o['rows'][i][q]) / (maps[q][2] * maps[q][0])
                   for q in range(n)]
            rows.append(row)
            ax.append(sum(r * v for r, v in zip(row, xd)))
        cons.append({'g': g, 'rows': rows, 'ax': ax, 'adder': ad, 'scaler': sl, 'mag': mag})
    return {'f': fval, 'gradf': gradf, 'cons': cons, 'fmag': fmag, 'gmag': gmag}


def flat_records(p, cap, xds, with_jac):
    """Behaviour of the objects the real driver handed to scipy: for every record (a LinearConstraint
    counts one record per row) its kind, bounds, and the value of its function / Jacobian row at
    each probe design (driver units)."""
    from scipy.optimize import NonlinearConstraint, LinearConstraint, Bounds
    cons = cap.kw.get('constraints') or []
    drv = p.driver
    recs = None
    fobj, gobj = [], []
    for xd in xds:
        xd = np.array(xd, dtype=float)
        fobj.append(rat(float(np.ravel(drv._objfunc(xd))[0])))      # the optimizer evaluates the objective first
        if with_jac:
            gobj.append(rats(np.asarray(drv._gradfunc(xd)).ravel().tolist()))
        cur = []
        for c in cons:
            if isinstance(c, dict):
                r = {'t': c['type'], 'v': rat(float(np.ravel(c['fun'](xd, *c.get('args', ())))[0]))}
                if with_jac and 'jac' in c:
                    r['j'] = rats(np.asarray(c['jac'](xd, *c.get('args', ()))).ravel().tolist())
                cur.append(r)
            elif isinstance(c, NonlinearConstraint):
                r = {'t': 'nl', 'v': rat(float(np.asarray(c.fun(xd)).ravel()[0])),
                     'lb': rat(float(np.ravel(c.lb)[0])), 'ub': rat(float(np.ravel(c.ub)[0]))}
                if with_jac:
                    r['j'] = rats(np.asarray(c.jac(xd)).ravel().tolist())
                cur.append(r)
            elif isinstance(c, LinearConstraint):
                A = np.atleast_2d(np.asarray(c.A, dtype=float))
                lb = np.broadcast_to(np.asarray(c.lb, dtype=float), (A.shape[0],))
                ub = np.broadcast_to(np.asarray(c.ub, dtype=float), (A.shape[0],))
                v = A @ xd
                for i in range(A.shape[0]):
                    cur.append({'t': 'lin', 'v': rat(float(v[i])), 'lb': rat(float(lb[i])),
                                'ub': rat(float(ub[i])), 'j': rats(A[i].tolist())})
            else:
                raise Infra('unknown constraint object %r' % type(c))
        if recs is None:
            recs = [dict(r, v=[r['v']], j=[r['j']] if 'j' in r else None) for r in cur]
        else:
            if len(cur) != len(recs):
                raise Infra('record count changed between probes')
            for r, q in zip(recs, cur):
                r['v'].append(q['v'])
                if r['j'] is not None:
                    r['j'].append(q['j'])
    b = cap.kw.get('bounds')
    if b is None:
        bounds = None
    elif isinstance(b, Bounds):
        bounds = [[None if not np.isfinite(l) else rat(float(l)),
                   None if not np.isfinite(h) else rat(float(h))]
                  for l, h in zip(np.atleast_1d(b.lb), np.atleast_1d(b.ub))]
    else:
        bounds = [[None if l is None else rat(float(l)), None if h is None else rat(float(h))]
                  for l, h in b]
    return recs or [], bounds, fobj, gobj


def contract_violation(recs, bounds, xd, k):
    """Worst violation, at probe k (driver design xd), of the records / bounds scipy was given
    (k = 0: the returned design, i.e. scipy's side of the contract)."""
    worst = 0.0
    for r in recs:
        v = float(unrat(r['v'][k]))
        if r['t'] == 'eq':
            worst = max(worst, abs(v))
        elif r['t'] == 'ineq':
            worst = max(worst, -v)
        else:
            worst = max(worst, float(unrat(r['lb'])) - v, v - float(unrat(r['ub'])))
    if bounds is not None:
        for (l, h), x in zip(bounds, xd):
            if l is not None:
                worst = max(worst, float(unrat(l)) - x)
            if h is not None:
                worst = max(worst, x - float(unrat(h)))
    return worst


def close(a, b):
    a = np.asarray(a, dtype=float).ravel()
    b = np.asarray(b, dtype=float).ravel()
    return a.shape == b.shape and bool(np.allclose(a, b, rtol=1e-9, atol=1e-11))


def replay_samples(p, cap):
    """Re-evaluate sampled callback calls: is the logged answer the value at the design asked about
    (direct purity check) / at the design of the latest objective / objective-gradient call
    (candidates for the Lean state machine's prediction)?"""
    drv = p.driver
    cons = cap.kw.get('constraints') or []
    log = cap.log[:TRACE_CAP]
    n = len(log)
    if n == 0:
        return []
    want = set(range(min(5, n))) | set(range(max(0, n - 4), n))
    nonobj = [k for k in range(n) if log[k][0] != 'o']
    step = max(1, len(nonobj) // 6)
    want |= set(nonobj[::step][:6])
    # calls whose answer is predicted stale are the interesting ones
    stale = [k for k in nonobj if (log[k][2] != (log[k][5] if (log[k][0] == 'j' and log[k][5] is not None)
                                                 else log[k][4]))]
    want |= set(stale[:3])
    out = []

    def evaluate(kind, rec, xarg, at):
        drv._objfunc(cap.xs[at])
        if kind == 'o':
            return drv._objfunc(xarg)
        g = drv._gradfunc(cap.xs[at]) if kind in ('g', 'j') else None
        if kind == 'g':
            return g
        c = cons[rec]
        if isinstance(c, dict):
            return c['fun' if kind == 'c' else 'jac'](xarg, *c.get('args', ()))
        return (c.fun if kind == 'c' else c.jac)(xarg)
    for k in sorted(want)[:N_SAMPLES]:
        kind, rec, i, val, lo, lg = log[k]
        if kind == 'o':
            continue
        cands = {}
        for at in {i, lo, lg} - {None}:
            cands[str(at)] = close(val, evaluate(kind, rec, cap.xs[i], at))
        out.append({'k': k, 'kind': kind, 'arg': i, 'cands': cands})
    return out


def fd_consistent(p, cap, xd):
    """At design xd (the certified optimum): do the Jacobian callbacks agree with central differences
    of the corresponding value callbacks?  (Only used to attribute a non-optimal 'success'.)"""
    drv = p.driver
    cons = cap.kw.get('constraints') or []
    xd = np.array(xd, dtype=float)
    h = 1e-6
    n = len(xd)

    def vals(x):
        f = float(np.ravel(drv._objfunc(x))[0])
        out = [f]
        for c in cons:
            if isinstance(c, dict):
                out.append(float(np.ravel(c['fun'](x, *c.get('args', ())))[0]))
            elif hasattr(c, 'fun'):
                out.append(float(np.ravel(c.fun(x))[0]))
        return np.array(out)
    J = np.zeros((len(vals(xd)), n))
    for k in range(n):
        e = np.zeros(n)
        e[k] = h * max(1.0, abs(xd[k]))
        J[:, k] = (vals(xd + e) - vals(xd - e)) / (2 * e[k])
    drv._objfunc(xd)
    rows = [np.ravel(drv._gradfunc(xd))]
    for c in cons:
        if isinstance(c, dict):
            if 'jac' not in c:
                return None
            rows.append(np.ravel(c['jac'](xd, *c.get('args', ()))))
        elif hasattr(c, 'fun'):
            rows.append(np.ravel(c.jac(xd)))
    A = np.array(rows)
    keep = np.abs(vals(xd)) < 1e20        # `INF_BOUND - g` records: differences vanish in floats
    A, J = A[keep], J[keep]
    return bool(np.allclose(A, J, rtol=1e-4, atol=1e-5 * (1 + np.abs(J).max())))


def run_one(case, scal, dry=False):
    return run_scaling(case, scal, dry)[0]


GLOBAL_OPTS = ('shgo', 'differential_evolution')


def run_global(case, scal):
    """The global optimizers do not go through `scipy.optimize.minimize`: the driver imports them from
    scipy.optimize when it runs, so that attribute is wrapped to see the result scipy returns.  Only
    the model-state clauses are judged (model left at the reported design, feasible)."""
    import scipy.optimize as sopt
    res = {}
    name = case['opt']
    orig = getattr(sopt, name)
    got = {}

    def wrapped(*a, **kw):
        got['res'] = orig(*a, **kw)
        return got['res']
    with warnings.catch_warnings():
        warnings.simplefilter('ignore')
        setattr(sopt, name, wrapped)
        try:
            p = build_problem(case, scal)
            with contextlib.redirect_stdout(io.StringIO()):
                p.run_driver()
        except Exception as e:
            return {'error': type(e).__name__, 'msg': str(e)[:160], 'called': 'res' in got}
        finally:
            setattr(sopt, name, orig)
        if 'res' not in got:
            return {'error': 'NotCalled', 'msg': 'scipy.optimize.%s was not called' % name,
                    'called': False}
        res['success'] = bool(p.driver.result.success) and not p.driver.fail
        res['message'] = str(getattr(got['res'], 'message', ''))[:80]
        xd = np.asarray(got['res'].x, dtype=float).ravel()
        if not np.all(np.isfinite(xd)):
            return {'error': 'NonFinite', 'msg': 'non-finite result', 'called': True}
        res['xd'] = rats(xd.tolist())
        res['x_model'] = rats(np.concatenate(
            [np.asarray(p.get_val(dv['name'])).ravel() for dv in case['dvs']]).tolist())
        res['outs'] = {o['name']: rats(np.asarray(p.get_val(o['name'])).ravel().tolist())
                       for o in case['outs']}
        # the objective left in the model against the objective of the reported design
        res['f_model'] = rat(float(np.ravel(p.get_val('f'))[0]))
        res['nfev'] = int(p.driver.iter_count)
    return res


def run_scaling(case, scal, dry=False):
    """One Problem / one driver under driver scaling `scal`, run once per stage of the case."""
    out = []
    p = None
    with warnings.catch_warnings():
        warnings.simplefilter('ignore')
        try:
            p = build_problem(case, scal)
        except Exception as e:
            err = {'error': type(e).__name__, 'msg': str(e)[:160], 'called': False}
            return [dict(err) for _ in stage_cases(case)]
        for k, ck in enumerate(stage_cases(case)):
            out.append(run_stage(p, ck, scal, dry, k))
    return out


def run_stage(p, case, scal, dry, k):
    res = {}
    grad_opt = case['opt'] != 'COBYLA'
    if True:
        with Capture(dry=dry) as cap:
            try:
                if k > 0:
                    load_stage(p, case)
                cap.driver = p.driver
                with contextlib.redirect_stdout(io.StringIO()):
                    p.run_driver()
            except Exception as e:      # not a success report: the property says nothing
                res['error'] = type(e).__name__
                res['msg'] = str(e)[:160]
                res['called'] = cap.kw is not None
                return res
            res['success'] = bool(p.driver.result.success) and not p.driver.fail
            res['message'] = str(getattr(cap.res, 'message', ''))[:80]
            xd = np.asarray(cap.res.x, dtype=float)
            if not np.all(np.isfinite(xd)) or not all(
                    np.all(np.isfinite(np.asarray(p.get_val(n_)))) for n_ in
                    [dv['name'] for dv in case['dvs']] + [o['name'] for o in case['outs']]):
                # the optimizer wandered off to nan/inf: certainly not a success report we can judge
                res['error'] = 'NonFinite'
                res['msg'] = 'non-finite design or outputs after the run (success=%s)' % res['success']
                res['called'] = True
                res['nonfinite_success'] = bool(res.pop('success'))
                return res
            res['xd'] = rats(xd.tolist())
            # observation through the public API, before anything else touches the model
            res['x_model'] = rats(np.concatenate(
                [np.asarray(p.get_val(dv['name'])).ravel() for dv in case['dvs']]).tolist())
            res['outs'] = {o['name']: rats(np.asarray(p.get_val(o['name'])).ravel().tolist())
                           for o in case['outs']}
            res['nfev'] = int(p.driver.iter_count)
            # callback trace
            res['trace'] = [[k, i] for (k, _, i, _, _, _) in cap.log[:TRACE_CAP]]
            res['trace_start'] = cap.start
            res['trace_truncated'] = len(cap.log) > TRACE_CAP
            # objective-first discipline over the *whole* run (simple bookkeeping, no model):
            # values / objective gradients asked where the model sits, constraint Jacobians where
            # the gradient cache was filled
            res['disciplined'] = all(
                (i == lo) if k in ('c', 'g') else (i == (lg if lg is not None else lo))
                for (k, _, i, _, lo, lg) in cap.log if k != 'o')
            lastobj = [i for (k, _, i, _, _, _) in cap.log if k == 'o']
            res['last_obj_id'] = lastobj[-1] if lastobj else cap.start
            res['result_id'] = cap.xid(xd)
            # which of these two designs is the model at (driver units, own scaling formula)?
            xmd = np.array([float(v) for v in scale_x(case, scal, [unrat(v) for v in res['x_model']])])
            # candidates: last objective design, result.x, and (a driver whose callbacks run the model
            # themselves) the design of the last callback of any kind
            cand = {res['last_obj_id'], res['result_id']}
            if cap.log:
                cand.add(cap.log[-1][2])
            res['model_at'] = [i for i in sorted(cand)
                               if np.allclose(cap.xs[i], xmd, rtol=1e-9, atol=1e-9)]
            try:
                res['samples'] = replay_samples(p, cap)
                # what scipy was given, at result.x and at the probe designs
                extra = list(case['probes'])
                if case.get('cert'):
                    extra = [case['cert']['x']] + extra      # probe 1: the certified optimum
                probes = [xd.tolist()] + [[float(v) for v in scale_x(case, scal, [unrat(e) for e in pr])]
                                          for pr in extra]
                res['probes_d'] = [rats(q) for q in probes]
                res['records'], res['bounds'], res['fobj'], res['gobj'] = \
                    flat_records(p, cap, probes, grad_opt)
                res['contract'] = contract_violation(res['records'], res['bounds'], probes[0], 0)
                if case.get('cert'):
                    # is the true optimum admissible for the problem scipy was given?
                    res['contract_xstar'] = contract_violation(res['records'], res['bounds'],
                                                               probes[1], 1)
                if res['success'] and grad_opt and case.get('cert'):
                    xs = [float(unrat(v)) for v in case['cert']['x']]
                    xm = [float(unrat(v)) for v in res['x_model']]
                    if max(abs(a - b) for a, b in zip(xs, xm)) > TOL_OPTIMUM:
                        # judged at the certified optimum (a well-scaled design; result.x may be
                        # a diverged point where differences are meaningless in floats)
                        res['fd_consistent'] = fd_consistent(p, cap, probes[1])
            except Infra:
                raise
            except Exception as e:
                res['records_error'] = '%s: %s' % (type(e).__name__, str(e)[:200])
    return res


# ------------------------------------------------------------------------------------------------
# generator: planted strictly convex QPs

SCALER_POOL = [F(1, 64), F(1, 32), F(1, 16), F(1, 8), F(1, 4), F(1, 2), F(2), F(3), F(4), F(8)]
MULTS = [F(1, 2), F(1), F(2), F(3)]
SLACKS = [F(1, 2), F(1), F(2), F(5, 2)]


def gen_scaling(rng, n, u, allow_none=True, neg=False):
    """Random driver scaling of an n-vector whose unit factor is u (keeps 0.02 <= s*u <= 64)."""
    pool = [s for s in SCALER_POOL if F(1, 50) <= s * u <= 64]
    kinds = ['scaler', 'scaler_adder', 'adder', 'ref', 'ref_ref0']
    if allow_none and F(1, 50) <= u <= 64:
        kinds += ['none', 'none']
    if not (F(1, 50) <= u <= 64):
        kinds = ['scaler', 'scaler_adder', 'ref', 'ref_ref0']
    kind = rng.choice(kinds)
    arr = n > 1 and rng.random() < 0.4
    sgn = -1 if neg else 1

    def val(p):
        if arr:
            return [rat(rng.choice(p)) for _ in range(n)]
        return rat(rng.choice(p))
    sc = {}
    if kind in ('scaler', 'scaler_adder'):
        sc['scaler'] = val([sgn * s for s in pool])
    if kind in ('adder', 'scaler_adder'):
        sc['adder'] = val(DY)
    if kind == 'ref':
        sc['ref'] = val([sgn / s for s in pool])
    if kind == 'ref_ref0':
        if arr:
            r0 = [rng.choice(DY) for _ in range(n)]
            sc['ref0'] = rats(r0)
            sc['ref'] = rats([a + sgn / rng.choice(pool) for a in r0])
        else:
            r0 = rng.choice(DY)
            sc['ref0'] = rat(r0)
            sc['ref'] = rat(r0 + sgn / rng.choice(pool))
    return sc


def spd(rng, n):
    while True:
        M = [[rng.choice([-2, -1, -1, 0, 0, 1, 1, 2]) for _ in range(n)] for _ in range(n)]
        Q = [[sum(M[k][i] * M[k][j] for k in range(n)) for j in range(n)] for i in range(n)]
        for i in range(n):
            Q[i][i] += rng.choice([1, 2, 3])
        return Q


def wire_bound(vals, mode, rng):
    """vals: list of Fraction|None (None = not set) -> kwarg wire value."""
    if all(v is None for v in vals):
        if mode == 'array' and rng.random() < 0.5:
            return [None] * len(vals)
        return None
    if mode == 'scalar':
        return rat(vals[0])
    return [None if v is None else rat(v) for v in vals]


def gen_case(rng, opt=None, force=None):
    force = force or {}
    opt = opt or rng.choice(OPTS)
    n = rng.choice([2, 2, 3, 3, 4, 5])
    Q = spd(rng, n)
    xs = [rng.choice(DY) for _ in range(n)]
    # design variables: the n-vector is split into 1 or 2 of them
    cut = rng.choice([n] * 2 + list(range(1, n)))
    sizes = [cut] if cut == n else [cut, n - cut]
    budget = [n]                   # how many active conditions may still be planted
    mult = []
    grad_terms = [F(0)] * n         # sum sign*lam*grad (stationarity: Qx* + c + this = 0)
    p_active = force.get('p_active', 0.5)

    def plant(kind, key, g):
        if budget[0] <= 0 or rng.random() > p_active:
            return False
        lam = rng.choice(MULTS)
        if kind == 'eq':
            lam = rng.choice(MULTS + [-m for m in MULTS])
        else:
            budget[0] -= 1
        sign = -1 if kind in ('lo', 'xlo') else 1
        for i in range(n):
            grad_terms[i] += sign * lam * g[i]
        mult.append([kind, list(key), rat(lam)])
        return True

    dvs = []
    pos = 0
    for di, sz in enumerate(sizes):
        units = rng.choice(UNITS[:5]) if rng.random() < 0.4 else UNITS[0]
        u = units[2]
        name = ['x', 'z'][di]
        xv = [u * v for v in xs[pos:pos + sz]]          # x* in driver units (before scaling)
        mode = rng.choice(['none', 'scalar', 'array', 'array'])
        lo = [None] * sz
        hi = [None] * sz
        if mode == 'scalar':
            which = rng.choice(['lo', 'hi', 'both'])
            if which in ('lo', 'both'):
                k = min(range(sz), key=lambda i: xv[i])
                e = [F(0)] * n
                e[pos + k] = F(1)
                act = plant('xlo', (name, k), e)
                # several elements may sit on a scalar bound: all get the bound, one the multiplier
                lo = [xv[k] - (0 if act else u * rng.choice(SLACKS))] * sz
            if which in ('hi', 'both'):
                k = max(range(sz), key=lambda i: xv[i])
                e = [F(0)] * n
                e[pos + k] = F(1)
                act = plant('xhi', (name, k), e)
                hi = [xv[k] + (0 if act else u * rng.choice(SLACKS))] * sz
        elif mode == 'array':
            for k in range(sz):
                which = rng.choice(['lo', 'hi', 'both', 'none'])
                e = [F(0)] * n
                e[pos + k] = F(1)
                done = False
                if which in ('lo', 'both'):
                    done = plant('xlo', (name, k), e)
                    lo[k] = xv[k] - (0 if done else u * rng.choice(SLACKS))
                if which in ('hi', 'both'):
                    act = (not done) and plant('xhi', (name, k), e)
                    hi[k] = xv[k] + (0 if act else u * rng.choice(SLACKS))
        dvs.append({'name': name, 'size': sz, 'units': [units[0], units[1]],
                    'lower': wire_bound(lo, mode, rng), 'upper': wire_bound(hi, mode, rng)})
        pos += sz

    # component outputs and constraints
    outs, cons = [], []
    nout = rng.choice([1, 1, 2])
    eq_ok = opt != 'COBYLA' or rng.random() < 0.03
    for oi in range(nout):
        m = rng.choice([1, 2, 3, 3, 4])
        units = rng.choice(UNITS[:5]) if rng.random() < 0.35 else UNITS[0]
        u = units[2]
        rows, ds, phis = [], [], []
        for _ in range(m):
            while True:
                row = [rng.choice([-3, -2, -1, 0, 0, 1, 2, 3]) for _ in range(n)]
                if any(row):
                    break
            rows.append(row)
            ds.append(rng.choice(DY))
            phis.append('cub' if rng.random() < force.get('p_cubic', 0.3) else 'lin')
        oname = 'g%d' % (oi + 1)
        o = {'name': oname, 'rows': rows, 'd': rats(ds), 'phi': phis, 'units': [units[0], units[1]]}
        outs.append(o)
        # split (a subset of) the positions over 1-2 constraints
        positions = list(range(m))
        if rng.random() < 0.5:
            rng.shuffle(positions)
        if rng.random() < 0.4 and m > 1:
            positions = positions[:rng.randint(1, m)]
        groups = [positions]
        if len(positions) > 1 and rng.random() < 0.3:
            k = rng.randint(1, len(positions) - 1)
            groups = [positions[:k], positions[k:]]
        for gi, grp in enumerate(groups):
            k = len(grp)
            if grp == list(range(m)) and rng.random() < 0.7:
                indices = None
            else:
                indices = [i - m if rng.random() < 0.2 else i for i in grp]
            alias = None if (gi == 0 and rng.random() < 0.7) else 'a%d_%d' % (oi + 1, gi)
            ts = [sum(F(a) * xi for a, xi in zip(rows[i], xs)) + ds[i] for i in grp]
            gv = [u * phi(phis[i], t) for i, t in zip(grp, ts)]            # constraint units
            grads = [[dphi(phis[i], t) * F(a) for a in rows[i]] for i, t in zip(grp, ts)]
            all_lin = all(phis[i] == 'lin' for i in grp)
            con = {'out': oname, 'alias': alias, 'indices': indices, 'lower': None, 'upper': None,
                   'equals': None, 'linear': bool(all_lin and rng.random() < force.get('p_linear', 0.5))}
            key = len(cons)
            if eq_ok and rng.random() < force.get('p_eq', 0.2):
                mode = rng.choice(['scalar', 'array']) if (k > 1 and len(set(gv)) == 1) else (
                    'array' if k > 1 else rng.choice(['scalar', 'array']))
                for j in range(k):
                    if not plant('eq', (key, j), grads[j]):
                        mult.append(['eq', [key, j], rat(0)])
                con['equals'] = wire_bound(gv, mode, rng)
            else:
                mode = rng.choice(['scalar', 'array', 'array']) if k > 1 else \
                    rng.choice(['scalar', 'array'])
                lo = [None] * k
                hi = [None] * k
                if mode == 'scalar':
                    which = rng.choice(['lo', 'hi', 'both'])
                    if which in ('lo', 'both'):
                        j = min(range(k), key=lambda i: gv[i])
                        act = plant('lo', (key, j), grads[j])
                        lo = [gv[j] - (0 if act else u * rng.choice(SLACKS))] * k
                    if which in ('hi', 'both'):
                        j = max(range(k), key=lambda i: gv[i])
                        act = (lo[0] is None or lo[0] != gv[j]) and plant('hi', (key, j), grads[j])
                        hi = [gv[j] + (0 if act else u * rng.choice(SLACKS))] * k
                else:
                    pats = [rng.choice(['lo', 'hi', 'both', 'both', 'none']) for _ in range(k)]
                    if all(q == 'none' for q in pats):
                        pats[rng.randrange(k)] = rng.choice(['lo', 'hi', 'both'])
                    for j, which in enumerate(pats):
                        done = False
                        if which in ('lo', 'both'):
                            done = plant('lo', (key, j), grads[j])
                            lo[j] = gv[j] - (0 if done else u * rng.choice(SLACKS))
                        if which in ('hi', 'both'):
                            act = (not done) and plant('hi', (key, j), grads[j])
                            hi[j] = gv[j] + (0 if act else u * rng.choice(SLACKS))
                con['lower'] = wire_bound(lo, mode, rng)
                con['upper'] = wire_bound(hi, mode, rng)
                if con['lower'] is None and con['upper'] is None:
                    con['upper'] = rat(max(gv) + u)
                elif all(v is None for v in (con['lower'] or [None])) and \
                        all(v is None for v in (con['upper'] or [None])) and \
                        not isinstance(con['lower'], str) and not isinstance(con['upper'], str):
                    con['upper'] = rat(max(gv) + u)
            cons.append(con)

    c = [-sum(F(Q[i][j]) * xs[j] for j in range(n)) - grad_terms[i] for i in range(n)]
    case = {'opt': opt, 'n': n, 'Q': Q, 'c': rats(c), 'dvs': dvs, 'outs': outs, 'cons': cons,
            'obj': {'units': list(rng.choice(UNITS[:5])[:2]) if rng.random() < 0.2 else [None, None]},
            'cert': {'x': rats(xs), 'mult': mult}}
    # start: random, inside the design-variable bounds
    x0 = []
    pos = 0
    for dv in dvs:
        u = ufactor(dv['units'])
        lo = bcast(dv['lower'], dv['size'])
        hi = bcast(dv['upper'], dv['size'])
        for k in range(dv['size']):
            v = rng.choice(DY)
            if lo[k] is not None and v < lo[k] / u:
                v = lo[k] / u
            if hi[k] is not None and v > hi[k] / u:
                v = hi[k] / u
            x0.append(v)
    case['x0'] = rats(x0)
    case['probes'] = [rats([rng.choice(DY) for _ in range(n)]) for _ in range(2)]
    # two driver scalings
    scalings = []
    for s in range(2):
        plain = (s == 1 and rng.random() < 0.3)
        sc = {'dvs': [], 'cons': [], 'obj': {}}
        for dv in dvs:
            u = ufactor(dv['units'])
            sc['dvs'].append({} if (plain and F(1, 50) <= u <= 64) else
                             gen_scaling(rng, dv['size'], u))
        for con in cons:
            o = [q for q in outs if q['name'] == con['out']][0]
            u = ufactor(o['units'])
            k = len(con['indices']) if con['indices'] is not None else len(o['rows'])
            sc['cons'].append({} if (plain and F(1, 50) <= u <= 64) else gen_scaling(rng, k, u))
        sc['obj'] = {} if plain else gen_scaling(rng, 1, F(1))
        scalings.append(sc)
    case['scalings'] = scalings
    return case


# ------------------------------------------------------------------------------------------------
# tiny fixed problems: which variant of each mechanism does /repo contain?

def _mini(opt, lower, upper, linear=False, rows=None, d=None, con_scaling=None, phis=None):
    rows = rows or [[1, 0], [0, 1]]
    m = len(rows)
    d = d or [F(0)] * m
    return {'opt': opt, 'n': 2, 'Q': [[2, 0], [0, 2]], 'c': rats([F(-6), F(-6)]),
            'dvs': [{'name': 'x', 'size': 2, 'units': [None, None], 'lower': None, 'upper': None}],
            'outs': [{'name': 'g1', 'rows': rows, 'd': rats(d), 'phi': phis or ['lin'] * m,
                      'units': [None, None]}],
            'cons': [{'out': 'g1', 'alias': None, 'indices': None, 'lower': lower, 'upper': upper,
                      'equals': None, 'linear': linear}],
            'obj': {'units': [None, None]}, 'x0': rats([F(1, 2), F(1, 4)]),
            'probes': [rats([F(1), F(2)])],
            'scalings': [{'dvs': [{}], 'cons': [con_scaling or {}], 'obj': {}}], 'cert': None}


CURRENT = {'rebind': True, 'lastOnly': True, 'negNew': True, 'linRow0': True, 'noSwap': True,
           'noSync': True, 'noFinalSync': True}


def detect_variant():
    """Probe the real driver (dry run: the constraint objects are built, scipy is not run).
    Returns (variant, problems); a mechanism that cannot be classified keeps the anchored value."""
    v = dict(CURRENT)
    problems = []

    def probe(fn):
        try:
            fn()
        except TieBrokenError as e:
            problems.append(str(e))
        except Exception as e:          # the probe itself crashed inside the driver
            problems.append('%s: %s: %s' % (fn.__name__, type(e).__name__, str(e)[:200]))

    def old_loop():
        # old-style loop: element 0 upper-only, element 1 two-sided
        c = _mini('SLSQP', [None, rat(0)], [rat(5), rat(1)])
        r = run_one(c, c['scalings'][0], dry=True)
        n = len(r.get('records', []))
        if n not in (2, 3):
            raise TieBrokenError('old-style dicts for a 2-element constraint: %s (%s)'
                                 % (n, r.get('error') or r.get('records_error')))
        v['rebind'] = (n == 2)

    def new_nonlinear():
        c = _mini('trust-constr', None, [rat(5), rat(1)], phis=['cub', 'cub'])
        r = run_one(c, c['scalings'][0], dry=True)
        n = len([q for q in r.get('records', []) if q['t'] == 'nl'])
        if n not in (1, 2):
            raise TieBrokenError('NonlinearConstraints for a 2-element constraint: %s (%s)'
                                 % (n, r.get('error') or r.get('records_error')))
        v['lastOnly'] = (n == 1)
        # Jacobian sign of an upper-only new-style constraint: d g_k / d x_k = 1 + 3 t^2/64 > 0
        q = [z for z in r['records'] if z['t'] == 'nl'][-1]
        d = unrat(q['j'][0][1])
        if d == 0:
            raise TieBrokenError('Jacobian of the last NonlinearConstraint has no x[1] entry')
        v['negNew'] = d < 0

    def new_linear():
        # new-style linear, one element, constant term 5, upper bound 1
        c = _mini('trust-constr', None, rat(1), linear=True, rows=[[1, 1]], d=[F(5)])
        r = run_one(c, c['scalings'][0], dry=True)
        recs = [z for z in r.get('records', []) if z['t'] in ('lin', 'nl')]
        if len(recs) != 1:
            raise TieBrokenError('linear constraint under trust-constr: %s' % (
                r.get('error') or r.get('records_error') or len(recs)))
        slack0 = unrat(recs[0]['ub']) - unrat(recs[0]['v'][0])      # at x0: A x0 = 3/4, g = 23/4
        if slack0 == F(1) - F(3, 4):
            v['linRow0'] = True
        elif slack0 == F(1) - F(23, 4):
            v['linRow0'] = False
        else:
            raise TieBrokenError('linear constraint under trust-constr: upper slack %s at x0' % slack0)

    def negative_scaler():
        # lower = 0 only, scaler -1; value of the dict at g = 1/2
        c = _mini('SLSQP', rat(0), None, rows=[[1, 0]], con_scaling={'scaler': rat(-1)})
        r = run_one(c, c['scalings'][0], dry=True)
        recs = r.get('records', [])
        val = unrat(recs[0]['v'][0]) if len(recs) == 1 else None
        if val == F(-1, 2):
            v['noSwap'] = True
        elif val == F(1, 2):
            v['noSwap'] = False
        else:
            raise TieBrokenError('dict value under a negative scaler: %s (%s)' % (
                val, r.get('error') or r.get('records_error')))

    def sync():
        v['noSync'], v['noFinalSync'] = detect_sync()

    for fn in (old_loop, new_nonlinear, new_linear, negative_scaler, sync):
        probe(fn)
    return v, problems


def detect_sync():
    """(a) does a constraint callback asked about a design the model is not at run the model first?
    (b) is the model moved to result.x when the optimizer returns a design it did not evaluate last?"""
    c = _mini('SLSQP', None, rat(9), rows=[[1, 0]])
    with warnings.catch_warnings():
        warnings.simplefilter('ignore')
        with Capture(dry='shift') as cap:
            p = build_problem(c, c['scalings'][0])
            cap.driver = p.driver
            with contextlib.redirect_stdout(io.StringIO()):
                p.run_driver()
        xm = np.asarray(p.get_val('x')).ravel()
        if np.allclose(xm, cap.x0 + 0.25):
            no_final = False
        elif np.allclose(xm, cap.x0):
            no_final = True
        else:
            raise TieBrokenError('model left at %s after a dry run from %s' % (xm, cap.x0))
        rec = cap.kw['constraints'][0]
        x1 = cap.x0 + 1.0
        p.driver._objfunc(cap.x0)
        v_out_of_order = float(np.ravel(rec['fun'](x1, *rec['args']))[0])
        p.driver._objfunc(x1)
        v_in_order = float(np.ravel(rec['fun'](x1, *rec['args']))[0])
        p.driver._objfunc(cap.x0)
        v_at_x0 = float(np.ravel(rec['fun'](cap.x0, *rec['args']))[0])
    if v_out_of_order == v_in_order != v_at_x0:
        no_sync = False
    elif v_out_of_order == v_at_x0 != v_in_order:
        no_sync = True
    else:
        raise TieBrokenError('out-of-order constraint callback: %s / %s / %s'
                             % (v_out_of_order, v_in_order, v_at_x0))
    return no_sync, no_final


class TieBrokenError(Exception):
    pass


# ------------------------------------------------------------------------------------------------

def rel_close(a, b, scale=0.0, tol=TOL_REC):
    """|a - b| small relative to the operands and to `scale`, the magnitude of the terms that were
    added up to get them (cancellation)."""
    a, b = float(a), float(b)
    return abs(a - b) <= tol * max(abs(a), abs(b), float(scale)) + 1e-300


class C21(Property):
    pid = 'C21'
    level = 'partial'
    required_theorems = [
        'C21_dicts_cover', 'C21_dicts_cover_partial', 'C21_dicts_lose_bound',
        'C21_newstyle_cover', 'C21_newstyle_partial', 'C21_newstyle_loses_elements',
        'C21_newstyle_drops_offset', 'C21_newstyle_linear_rejected',
        'C21_confunc_slope', 'C21_grad_sign', 'C21_grad_sign_new_wrong', 'C21_dv_bounds',
        'C21_model_units', 'C21_model_units_eq', 'C21_model_units_neg', 'C21_model_units_neg_fixed',
        'C21_neg_scaler_reverses', 'C21_callbacks_pure', 'C21_callbacks_stale',
        'C21_callbacks_pure_fixed', 'C21_model_left_at_last_objective', 'C21_model_not_at_result',
        'C21_success_feasible',
        'C21_scaling_invariant_argmin', 'C21_affine_bijection', 'C21_kkt_unique']
    rule = ("cases: strictly convex QPs (n = 2-5, integer SPD Q) with a planted optimum as real OpenMDAO "
            "models (one component with analytic partials, 1-2 design variables, 1-2 array outputs "
            "whose rows are affine or an increasing cubic of an affine form), 1-4 constraints with "
            "indices/alias, per-element bound patterns (lower / upper / both / none / equals, scalar "
            "or array, +-INF_BOUND for 'not set', non-uniform), linear=True/False, scaler/adder or "
            "ref/ref0 (scalar/array) and units on design variables, constraints and objective, x "
            "{SLSQP, COBYLA, trust-constr}; every case is run under two driver scalings; ~25% of the cases "
            "(and the first six) re-run the same Problem 2-3 times after set_val on the non-design "
            "inputs holding the constraint rows/constants and the objective's linear term (own planted "
            "optimum per run, linear=True constraints with changed rows active in the head cases); a small "
            "stream has a negative constraint scaler, an infeasible problem or a tiny iteration "
            "limit. Non-trivial: at least one of the two runs reports success; distinct by canonical "
            "case encoding.")
    assumptions = [
        "scipy's optimizers are a contract: success => every constraint function / bound it was given "
        "is satisfied at result.x within its tolerance (validated per run; a run where scipy itself "
        "breaks this with correct callbacks is counted, not reported)",
        "feasibility is judged at 1e-6 in model units with optimizer tolerances 1e-9 and "
        "0.02 <= unit factor * scaler <= 64; 'model at result.x' at 1e-6 in driver units (COBYLA "
        "returns its best vertex, not its last evaluation); optimality (1e-4) is only demanded of "
        "SLSQP and trust-constr and only when the Jacobian callbacks agree with finite differences",
        "INF_BOUND = 1e30 exceeds every constraint value in magnitude",
    ]
    level_text = ("The driver's glue is modelled in Lean literally (scaled bounds with sentinels, the per-element "
                  "loop building the old-style dicts incl. the rebinding of `upper`/`lower`, `_confunc`, the "
                  "new-style Nonlinear/LinearConstraint objects, the sign chosen by `_congradfunc`, design-"
                  "variable bounds, the callbacks as a state machine over the model state and the gradient "
                  "cache). Proved for all bound patterns over any ordered field: for the repaired glue the "
                  "records handed to scipy are satisfied iff every element is within every bound that is set, "
                  "in driver units and (positive scalers) in model units; Jacobian signs match the record "
                  "functions; callbacks are pure under the objective-first discipline; contract => property; "
                  "minimisers are invariant under the driver's rescaling; a feasible KKT point of a strictly "
                  "convex problem is the unique optimum. For the anchored code the same statements hold only "
                  "under explicit side conditions, with kernel-checked counterexamples for each defect. "
                  "scipy's optimizers are an assumed contract, validated per run.")
    level_note = ("partial: the optimizers are third-party code (contract), and OpenMDAO's setup / total "
                  "derivative code is tied only differentially (values and Jacobian rows of every record at "
                  "probe designs against exact rational arithmetic).")
    technique = "Lean 4 proof over ordered fields + differential correspondence on captured scipy arguments"
    trusted_extra = [
        "scipy.optimize.minimize (SLSQP, COBYLA, trust-constr): success implies its own constraint "
        "functions and bounds hold at result.x (validated on every run)",
        "the harness's exact rational evaluation of the generated QP (objective, constraints, unit "
        "factors, driver scaling) and its KKT certificate check",
    ]
    tolerance = {'optimizer_tol': TOL_OPT, 'feasible_model_units': TOL_FEAS,
                 'at_x_driver_units': TOL_AT, 'optimum': TOL_OPTIMUM, 'record_values_rel': TOL_REC}
    workers = 1
    _variant = None
    _probe_problems = []

    # -- tie --------------------------------------------------------------------------------------
    def variant(self):
        if self._variant is None:
            from common import in_tempdir
            C21._variant, C21._probe_problems = in_tempdir(detect_variant)
        return self._variant

    def translate(self):
        v = self.variant()
        if self._probe_problems:
            from common import TieBroken
            raise TieBroken('variant probes on the real driver failed: ' +
                            '; '.join(self._probe_problems))
        names = {'rebind': "old-style loop rebinds upper/lower to element 0",
                 'lastOnly': "only the last element's NonlinearConstraint is appended",
                 'linRow0': "LinearConstraint with one Jacobian row and no constant term",
                 'negNew': "_congradfunc negates upper-only rows of new-style constraints",
                 'noSwap': "scaled bounds are not exchanged under a negative scaler",
                 'noSync': "callbacks other than the objective do not run the model at their argument",
                 'noFinalSync': "the model is not re-run at result.x"}
        return ["/repo variant probe: %s = %s" % (names[k], v[k]) for k in sorted(v)]

    def setup(self, tier):
        import openmdao.api  # noqa: F401  (before any fork)
        self.tier = tier
        if tier == 'thorough':
            self.workers = 8
        self.variant()

    # -- generator ----------------------------------------------------------------------------------
    def cases(self, rng, tier):
        n = 40 if tier == 'quick' else 3000
        # head of the stream: parameter studies (one Problem run 2-3 times with changed non-design
        # inputs) whose changed rows belong to active constraints declared linear=True
        head = ['SLSQP', 'trust-constr', 'SLSQP', 'trust-constr', 'SLSQP', 'COBYLA']
        for k in range(n):
            if k < len(head):
                case = gen_case(rng, head[k], force={'p_cubic': 0.0, 'p_linear': 1.0, 'p_eq': 0.0,
                                                     'p_active': 0.8})
                add_stages(rng, case, rng.choice([1, 2]))
                yield case
                continue
            if k in (len(head), len(head) + 1) or (k > len(head) + 1 and rng.random() < 0.05):
                # global optimizers (no scipy.optimize.minimize): model-state clauses only
                yield gen_global_case(rng, 'shgo' if k % 2 == 0 else 'differential_evolution')
                continue
            r = rng.random()
            opt = 'SLSQP' if r < 0.5 else ('COBYLA' if r < 0.75 else 'trust-constr')
            case = gen_case(rng, opt)
            s = rng.random()
            if s > 0.78:
                add_stages(rng, case, rng.choice([1, 1, 2]))
            elif s < 0.06:
                mutate_negative(rng, case)
            elif s < 0.10:
                mutate_infeasible(rng, case)
            elif s < 0.13:
                case['maxiter'] = rng.choice([1, 2, 3])
            yield case

    # -- real code ------------------------------------------------------------------------------------
    def run_impl(self, case):
        if case['opt'] in GLOBAL_OPTS:
            return {'runs': [run_global(case, sc) for sc in case['scalings']]}
        # one Problem per driver scaling, run once per stage; flat list, scaling-major
        return {'runs': [r for sc in case['scalings'] for r in run_scaling(case, sc)]}

    def instances(self, case, impl):
        """(scaling index, stage index, scaling, the stage as a complete case, its run)"""
        cks = stage_cases(case)
        out = []
        i = 0
        for si, sc in enumerate(case['scalings']):
            for k, ck in enumerate(cks):
                out.append((si, k, sc, ck, impl['runs'][i]))
                i += 1
        return out

    # -- direct oracle ----------------------------------------------------------------------------------
    def run_checks(self, case, scal, r):
        """Property clauses for one run. Returns list of failure dicts (empty = holds / vacuous)."""
        if 'error' in r or not r.get('success'):
            return []
        ex = Exact(case)
        fails = []
        xd = [float(unrat(v)) for v in r['xd']]
        xm = [unrat(v) for v in r['x_model']]
        pure = self.pure(r)
        contract_ok = r.get('contract', 0.0) <= TOL_CONTRACT
        # (1) the model sits at the returned design
        xmd = [float(v) for v in scale_x(case, scal, xm)]
        dev = max(abs(a - b) / max(1.0, abs(b)) for a, b in zip(xmd, xd))
        if dev > TOL_AT:
            fails.append({'clause': 'at_x', 'what': 'model is not at result.x', 'deviation': dev})
        elif 'f_model' in r:
            fx = float(ex.f(unscale_x(case, scal, [unrat(v) for v in r['xd']])))
            fm = float(unrat(r['f_model']))
            if abs(fx - fm) > 1e-6 * max(1.0, abs(fx)):
                fails.append({'clause': 'at_x', 'what': 'objective left in the model is not the '
                              'objective of result.x', 'deviation': abs(fx - fm)})
        # (2) every element of every constraint within its bounds, from get_val
        worst = None
        for ci, con in enumerate(case['cons']):
            o = ex.outs[con['out']]
            u = ufactor(o['units'])
            vals = [unrat(v) for v in r['outs'][con['out']]]
            for j, (i, l, h, e) in enumerate(ex.con_elems(con)):
                v = vals[i]
                for side, b in (('lower', l), ('upper', h), ('equals', e)):
                    if b is None:
                        continue
                    bm = b / u
                    viol = bm - v if side == 'lower' else (v - bm if side == 'upper' else abs(v - bm))
                    if viol > TOL_FEAS * max(1, abs(bm)) and (worst is None or viol > worst[0]):
                        worst = (viol, ci, j, side)
        for dv, a, b in ex.dv_slices():
            u = ufactor(dv['units'])
            lo = bcast(dv['lower'], dv['size'])
            hi = bcast(dv['upper'], dv['size'])
            for k in range(dv['size']):
                for side, bb in (('lower', lo[k]), ('upper', hi[k])):
                    if bb is None or abs(bb) >= INF:
                        continue
                    bm = bb / u
                    viol = bm - xm[a + k] if side == 'lower' else xm[a + k] - bm
                    if viol > TOL_FEAS * max(1, abs(bm)) and (worst is None or viol > worst[0]):
                        worst = (viol, 'dv:' + dv['name'], k, side)
        if worst is not None:
            if pure and not contract_ok:
                pass        # scipy reported success although its own functions are violated
            else:
                fails.append({'clause': 'feasible', 'what': 'infeasible design reported as success',
                              'violation': float(worst[0]), 'con': worst[1], 'elem': worst[2],
                              'side': worst[3],
                              'cause': 'bound_not_passed' if contract_ok else 'stale_callbacks',
                              'pattern': self.pattern(case, scal, worst)})
        # (3) the true optimum (gradient-based optimizers)
        if case.get('cert') and case['opt'] != 'COBYLA' and not fails:
            xs = ex.check_certificate()
            dist = max(abs(float(a) - float(b)) / max(1.0, abs(float(b))) for a, b in zip(xm, xs))
            if dist > TOL_OPTIMUM:
                posed = r.get('contract_xstar', 0.0) <= 1e-7
                if pure and contract_ok and r.get('fd_consistent') is True and posed:
                    # correct callbacks and Jacobians, and the true optimum is admissible for what
                    # scipy was given: the optimizer's own early stop, not the glue
                    pass
                else:
                    fails.append({'clause': 'optimum', 'what': 'reported design is not the optimum',
                                  'distance': dist, 'fd_consistent': r.get('fd_consistent'),
                                  'cause': ('stale_callbacks' if not pure else
                                            'optimum_excluded_by_passed_bounds' if not posed else
                                            'jacobian_inconsistent')})
        return fails

    def optimal(self, case, r):
        """the run's design is (within tolerance) the certified optimum"""
        if not case.get('cert'):
            return False
        xs = [unrat(v) for v in case['cert']['x']]
        xm = [unrat(v) for v in r['x_model']]
        return max(abs(float(a) - float(b)) / max(1.0, abs(float(b))) for a, b in zip(xm, xs)) \
            <= TOL_OPTIMUM

    def pure(self, r):
        """Direct purity check: every callback was asked about the design the model (resp. the
        gradient cache) was at, and every sampled callback answer equals the value re-computed with
        the model freshly run at the design asked about."""
        synced = not self.variant()['noSync']     # probed: out-of-order callbacks run the model
        return (synced or bool(r.get('disciplined', True))) and \
            all(s['cands'].get(str(s['arg'])) for s in r.get('samples', []))

    def pattern(self, case, scal, worst):
        """Bound pattern (driver units) around the violated element: what the old-style loop sees."""
        _, ci, j, side = worst
        if not isinstance(ci, int):
            return 'design_var'
        con = case['cons'][ci]
        sc = scal['cons'][ci]
        if case['opt'] not in OLD_STYLE:
            size = len(Exact(case).con_elems(con))
            if has_negative(sc):
                return 'negative_scaler'
            if con['linear']:
                return 'linear_constant_term'
            return 'not_last_element' if j < size - 1 else 'last_element'
        if con['equals'] is not None:
            return 'equality'
        els = Exact(case).con_elems(con)
        ad, sl = adder_scaler(sc, len(els))

        def two_sided(k):
            return els[k][1] is not None and els[k][2] is not None
        if any(s < 0 for s in sl):
            return 'negative_scaler'
        return 'e0_%s_ej_%s_j%s' % ('two' if two_sided(0) else 'one', 'two' if two_sided(j) else 'one',
                                    '0' if j == 0 else 'pos')

    def oracle(self, case, impl):
        # every run of every Problem is judged on its own data (clause 4, independence of the driver
        # scaling, is clause 3 holding for both scalings)
        allf = []
        for si, k, sc, ck, r in self.instances(case, impl):
            for f in self.run_checks(ck, sc, r):
                f['scaling'] = si
                f['stage'] = k
                f['pure'] = self.pure(r)
                allf.append(f)
        if not allf:
            return None
        order = {'feasible': 0, 'at_x': 1, 'optimum': 2}
        allf.sort(key=lambda f: (order[f['clause']], f['stage']))
        out = dict(allf[0])
        out['all'] = allf[1:4]
        return out

    def signature(self, case, impl, failure):
        neg = any(has_negative(part) for sc in case['scalings'] for part in sc['cons'] + sc['dvs'])
        return {'style': 'old' if case['opt'] in OLD_STYLE else 'new', 'optimizer': case['opt'],
                'clause': failure.get('clause'), 'pure': failure.get('pure'),
                'cause': failure.get('cause'), 'pattern': failure.get('pattern'),
                'side': failure.get('side'), 'negative_scaler': neg,
                'run': 'first' if not failure.get('stage') else 'rerun'}

    def nontrivial(self, case, impl):
        return any(r.get('success') for r in impl['runs'])

    def bucket(self, case, impl):
        b = ['opt=' + case['opt'], 'n=%d' % case['n'], 'runs-per-problem=%d' % len(stage_cases(case))]
        for si, k, sc_, ck_, r in self.instances(case, impl):
            if k > 0:
                b.append('rerun:%s:%s' % (case['opt'], 'error' if 'error' in r else
                                          ('success' if r['success'] else 'no-success')))
                if any(c_['linear'] for c_ in case['cons']):
                    b.append('rerun:with-linear-constraint')
            if 'error' in r:
                b.append('run:error:%s' % r['error'])
            else:
                b.append('run:%s:%s' % (case['opt'], 'success' if r['success'] else 'no-success'))
                b.append('callbacks:%s' % ('pure' if self.pure(r) else 'stale'))
                if r.get('success') and r.get('contract', 0) > TOL_CONTRACT:
                    b.append('scipy-success-with-own-constraint-violated' +
                             ('' if not self.pure(r) else ':pure'))
                if r.get('success'):
                    fails = self.run_checks(ck_, sc_, r)
                    if fails:
                        b.append('success:%s:clause-%s-fails' % (case['opt'], fails[0]['clause']))
                    elif not ck_.get('cert'):
                        b.append('success:%s:feasible(no certificate)' % case['opt'])
                    elif self.optimal(ck_, r):
                        b.append('success:%s:feasible+optimal' % case['opt'])
                    elif case['opt'] == 'COBYLA':
                        b.append('success:COBYLA:feasible,optimality-not-demanded')
                    else:
                        b.append('success:%s:feasible,early-stop-of-scipy(callbacks+jacobians+posing '
                                 'verified)' % case['opt'])
        kinds = set()
        for con in case['cons']:
            if con['equals'] is not None:
                kinds.add('con:equals:' + ('array' if isinstance(con['equals'], list) else 'scalar'))
            else:
                arr = isinstance(con['lower'], list) or isinstance(con['upper'], list)
                kinds.add('con:ineq:' + ('array' if arr else 'scalar'))
                els = Exact(case).con_elems(con)
                pats = {(e[1] is not None, e[2] is not None) for e in els}
                if len(pats) > 1:
                    kinds.add('con:non-uniform-pattern')
                    if (els[0][1] is None or els[0][2] is None) and \
                            any(e[1] is not None and e[2] is not None for e in els[1:]):
                        kinds.add('con:e0-one-sided-later-two-sided')
            if con['indices'] is not None:
                kinds.add('con:indices')
            if con['alias'] is not None:
                kinds.add('con:alias')
            kinds.add('con:linear' if con['linear'] else 'con:nonlinear')
        if any('cub' in o['phi'] for o in case['outs']):
            kinds.add('rows:cubic')
        for sc in case['scalings']:
            for part in sc['cons'] + sc['dvs'] + [sc['obj']]:
                kinds.add('scaling:' + ('+'.join(sorted(part)) or 'none'))
        if any(o['units'][1] for o in case['outs']) or any(d['units'][1] for d in case['dvs']):
            kinds.add('units')
        for key in ('neg', 'infeasible', 'maxiter'):
            if key in case:
                kinds.add('stream:' + key)
        return b + sorted(kinds)

    # -- model ----------------------------------------------------------------------------------------
    def probes_exact(self, case, scal, r):
        """driver-unit probe designs as exact Fractions (the floats the real code was called with)."""
        if r.get('probes_d'):
            return [[unrat(v) for v in q] for q in r['probes_d']]
        return [[F(float(v)) for v in scale_x(case, scal, [unrat(e) for e in pr])]
                for pr in [case['x0']] + case['probes']]

    def model_requests(self, case, impl):
        v = self.variant()
        style = 'old' if case['opt'] in OLD_STYLE else 'new'
        reqs = []
        if case['opt'] in GLOBAL_OPTS:
            return reqs       # no captured minimize arguments: judged by the direct oracle only
        for si_, k_, sc, case, r in self.instances(case, impl):
            ex = Exact(case)
            probes = self.probes_exact(case, sc, r)
            views = [exact_driver_view(case, sc, q) for q in probes]
            x0d = [F(float(t)) for t in scale_x(case, sc, [unrat(e) for e in case['x0']])]
            v0 = exact_driver_view(case, sc, x0d)
            for ci, con in enumerate(case['cons']):
                els = ex.con_elems(con)
                k = len(els)
                ad, sl = adder_scaler(sc['cons'][ci], k)
                lo = [(-INF if e[1] is None else e[1]) for e in els]
                hi = [(INF if e[2] is None else e[2]) for e in els]
                eq = None if con['equals'] is None else [e[3] for e in els]
                off = [g - a for g, a in zip(v0['cons'][ci]['g'], v0['cons'][ci]['ax'])]
                reqs.append({'op': 'con', 'style': style, 'variant': v, 'inf': rat(INF),
                             'tol': rat(F(TOL_CONTRACT)), 'size': k, 'lower': rats(lo), 'upper': rats(hi),
                             'equals': None if eq is None else rats(eq), 'adder': rats(ad),
                             'scaler': rats(sl), 'linear': bool(con['linear']) and case['opt'] != 'COBYLA',
                             'off': rats(off), 'g': [rats(w['cons'][ci]['g']) for w in views],
                             'ax': [rats(w['cons'][ci]['ax']) for w in views]})
            for dv, a, b in ex.dv_slices():
                ad, sl = adder_scaler(sc['dvs'][case['dvs'].index(dv)], dv['size'])
                lo = [(-INF if t is None else t) for t in bcast(dv['lower'], dv['size'])]
                hi = [(INF if t is None else t) for t in bcast(dv['upper'], dv['size'])]
                reqs.append({'op': 'dv', 'variant': v, 'inf': rat(INF), 'tol': rat(F(TOL_CONTRACT)),
                             'lower': rats(lo), 'upper': rats(hi), 'adder': rats(ad), 'scaler': rats(sl),
                             'x': rats(probes[0][a:b])})
            reqs.append({'op': 'trace', 'variant': v, 'start': r.get('trace_start', 0),
                         'result': r.get('result_id', 0), 'calls': r.get('trace', [])})
        return reqs

    def compare(self, case, impl, answers):
        ncon, ndv = len(case['cons']), len(case['dvs'])
        per = ncon + ndv + 1
        for q, (si, k, sc, ck, r) in enumerate(self.instances(case, impl)):
            ans = answers[q * per:(q + 1) * per]
            d = self.compare_run(ck, sc, r, ans[:ncon], ans[ncon:ncon + ndv], ans[-1])
            if d is not None:
                return 'scaling %d, run %d of the problem: %s' % (si, k + 1, d)
        return None

    def compare_run(self, case, sc, r, cons_a, dvs_a, trace_a):
        lin_shape = any(not a.get('ok') for a in cons_a)
        if 'error' in r:
            shape_err = r['error'] == 'ValueError' and 'broadcastable' in r.get('msg', '')
            if lin_shape != shape_err:
                return 'model %s a rejected LinearConstraint, implementation raised %s: %s' % (
                    'predicts' if lin_shape else 'does not predict', r['error'], r.get('msg'))
            return None
        if lin_shape:
            return 'model predicts a rejected LinearConstraint, implementation built its constraints'
        if 'records_error' in r:
            return 'records of the implementation could not be evaluated: %s' % r['records_error']
        probes = self.probes_exact(case, sc, r)
        views = [exact_driver_view(case, sc, q) for q in probes]
        # a diverged optimizer leaves result.x at ~1e15: floating-point evaluation of the model is
        # meaningless there (differences of huge numbers), the other probes remain
        self._skip = {pi for pi, q in enumerate(probes)
                      if max(abs(t) for t in unscale_x(case, sc, q)) > 1000}
        grad_opt = case['opt'] != 'COBYLA'
        # objective value / gradient as the optimizer sees them
        for pi, w in enumerate(views):
            if pi in self._skip:
                continue
            if not rel_close(unrat(r['fobj'][pi]), w['f'], w['fmag']):
                return 'objective at probe %d: implementation %s, exact %s' % (
                    pi, float(unrat(r['fobj'][pi])), float(w['f']))
            if grad_opt:
                g = [unrat(t) for t in r['gobj'][pi]]
                if len(g) != len(w['gradf']) or not all(
                        rel_close(a, b, m) for a, b, m in zip(g, w['gradf'], w['gmag'])):
                    return 'objective gradient at probe %d: implementation %s, exact %s' % (
                        pi, [float(t) for t in g], [float(t) for t in w['gradf']])
        # records
        model = []
        for ci, a in enumerate(cons_a):
            for q in a['recs']:
                model.append((ci, q))
        impl_recs = list(r['records'])
        if len(model) != len(impl_recs):
            return '%d records handed to scipy, model builds %d' % (len(impl_recs), len(model))
        used = [False] * len(impl_recs)
        mags = []
        for a in cons_a:
            m = []
            for lo_, hi_ in zip(a['lower_s'], a['upper_s']):
                m.append(max([abs(t) for t in (unrat(lo_), unrat(hi_)) if abs(t) < INF] + [F(0)]))
            if a.get('equals_s'):
                m = [max(x_, abs(unrat(e_))) for x_, e_ in zip(m, a['equals_s'])]
            mags.append(m)
        for ci, q in model:
            self._bound_mag = mags[ci]
            hit = None
            why = None
            for k, z in enumerate(impl_recs):
                if used[k]:
                    continue
                why = self.record_diff(case, q, z, views, ci, grad_opt)
                if why is None:
                    hit = k
                    break
            if hit is None:
                return 'no record of the implementation behaves like model record %s of constraint %d ' \
                       '(last mismatch: %s)' % ({k: q[k] for k in ('t', 'idx')}, ci, why)
            used[hit] = True
        # bounds
        flat = [b for a in dvs_a for b in a['b']]
        if r['bounds'] is None:
            return 'no bounds passed to scipy'
        if len(flat) != len(r['bounds']):
            return 'bounds: %d pairs, model %d' % (len(r['bounds']), len(flat))
        for k, (m, z) in enumerate(zip(flat, r['bounds'])):
            for key, zi in (('lb', z[0]), ('ub', z[1])):
                if (m[key] is None) != (zi is None) or (zi is not None and
                                                        not rel_close(unrat(m[key]), unrat(zi), 1.0)):
                    return 'bound %d %s: implementation %s, model %s' % (k, key, zi, m[key])
        # callbacks: the state machine's prediction of where each sampled answer was computed
        at = trace_a['answered_at']
        for s in r.get('samples', []):
            pred = at[s['k']]
            if str(pred) not in s['cands']:
                return 'callback %d (%s): model predicts design %d, not among the re-evaluated %s' % (
                    s['k'], s['kind'], pred, sorted(s['cands']))
            if not s['cands'][str(pred)]:
                return 'callback %d (%s) asked about design %d: its answer is not the value at design ' \
                       '%d predicted by the model' % (s['k'], s['kind'], s['arg'], pred)
        if not r.get('trace_truncated') and trace_a['final'] not in r['model_at']:
            return 'where the model is left: model predicts design %s, the implementation is at %s ' \
                   '(candidates: last objective design %s, result.x %s, last callback)' % (
                       trace_a['final'], r['model_at'], r['last_obj_id'], r['result_id'])
        return None

    def record_diff(self, case, q, z, views, ci, grad_opt):
        """None when implementation record z behaves like model record q."""
        new = q['t'] in ('nl', 'lin')
        if new != (z['t'] in ('nl', 'lin')) or (not new and q['t'] != z['t']):
            return 'kind %s vs %s' % (z['t'], q['t'])
        j = q['idx']
        bmag = self._bound_mag
        for pi, w in enumerate(views):
            if pi in self._skip:
                continue
            cv = w['cons'][ci]
            mv = unrat(q['v'][pi])
            zv = unrat(z['v'][pi])
            if new:
                # representation independent: compare the two slacks
                for mb, zb, sgn in ((q['lb'], z['lb'], 1), (q['ub'], z['ub'], -1)):
                    ms = sgn * (mv - unrat(mb))
                    zs = sgn * (zv - unrat(zb))
                    if not rel_close(ms, zs, max(cv['mag'][j], abs(unrat(mb)))):
                        return 'slack at probe %d: implementation %s, model %s' % (pi, float(zs),
                                                                                  float(ms))
            elif not rel_close(mv, zv, max(cv['mag'][j], abs(bmag[j]))):
                return 'value at probe %d: implementation %s, model %s' % (pi, float(zv), float(mv))
            if grad_opt and z.get('j') is not None:
                row = [q['sign'] * t for t in cv['rows'][j]]
                zr = [unrat(t) for t in z['j'][pi]]
                rs = max([abs(float(t)) for t in row] + [1e-30])
                if len(zr) != len(row) or not all(rel_close(a, b, rs) for a, b in zip(zr, row)):
                    return 'Jacobian row at probe %d: implementation %s, model %s' % (
                        pi, [float(t) for t in zr], [float(t) for t in row])
        return None


def feasible_start(rng, ck):
    """a start design strictly inside all bounds and inequality constraints if one is found near the
    optimum (scipy's `keep_feasible` LinearConstraint / Bounds reject an infeasible x0 and stall on
    the boundary), else the optimum itself"""
    ex = Exact(ck)
    xs = [unrat(v) for v in ck['cert']['x']]
    sides = ex.side_constraints()

    def slack(x):
        # smallest slack over the inequality conditions (negative: infeasible); equalities must hold
        m = None
        for sc in sides:
            v, _ = ex.value_grad(sc, x)
            if sc[0] == 'eq':
                if v != sc[4]:
                    return F(-1)
                continue
            sl = (v - sc[4]) if sc[0] in ('lo', 'xlo') else (sc[4] - v)
            m = sl if m is None else min(m, sl)
        return F(1) if m is None else m
    best, bests = xs, F(0)
    for scale in (F(1, 2), F(1, 4), F(1, 8), F(1, 32)):
        for _ in range(80):
            x = [v + scale * rng.randint(-4, 4) for v in xs]
            sl = slack(x)
            if sl > bests:
                best, bests = x, sl
        if bests > 0:
            break
    return best


def add_stages(rng, case, nst):
    """Turn a planted case into a parameter study: `nst` further runs of the same Problem with new
    rows / constants / linear term (set_val on non-design inputs).  Bounds are fixed at setup, so
    every stage keeps the value t_i* of every affine form at its own optimum (hence the same active
    set and slacks) and the design components that carry a bound; rows, the free components of the
    optimum and therefore all gradients change."""
    ex = Exact(case)
    n = case['n']
    Q = ex.Q
    xs = [unrat(v) for v in case['cert']['x']]
    bounded = set()
    pos_of = {}
    for dv, a, b in ex.dv_slices():
        lo = bcast(dv['lower'], dv['size'])
        hi = bcast(dv['upper'], dv['size'])
        for k in range(dv['size']):
            pos_of[(dv['name'], k)] = a + k
            if lo[k] is not None or hi[k] is not None:
                bounded.add(a + k)
    tstar = {o['name']: [sum(F(a) * xi for a, xi in zip(row, xs)) + unrat(d)
                         for row, d in zip(o['rows'], o['d'])] for o in case['outs']}
    stages = []
    for _ in range(nst):
        xn = [xs[i] if i in bounded else rng.choice(DY) for i in range(n)]
        rows, ds = {}, {}
        for o in case['outs']:
            nr, nd = [], []
            for i, row in enumerate(o['rows']):
                r = list(row)
                if rng.random() < 0.8:
                    while True:
                        r = [rng.choice([-3, -2, -1, 0, 0, 1, 2, 3]) for _ in range(n)]
                        if any(r):
                            break
                nr.append(r)
                nd.append(tstar[o['name']][i] - sum(F(a) * xi for a, xi in zip(r, xn)))
            rows[o['name']] = nr
            ds[o['name']] = rats(nd)
        gt = [F(0)] * n
        for kind, key, lam in case['cert']['mult']:
            lam = unrat(lam)
            sign = -1 if kind in ('lo', 'xlo') else 1
            if kind in ('xlo', 'xhi'):
                g = [F(0)] * n
                g[pos_of[(key[0], key[1])]] = F(1)
            else:
                con = case['cons'][key[0]]
                o = ex.outs[con['out']]
                i = ex.con_elems(con)[key[1]][0]
                g = [dphi(o['phi'][i], tstar[o['name']][i]) * F(a) for a in rows[o['name']][i]]
            for q in range(n):
                gt[q] += sign * lam * g[q]
        c = [-sum(Q[i][j] * xn[j] for j in range(n)) - gt[i] for i in range(n)]
        st = {'rows': rows, 'd': ds, 'c': rats(c),
              'cert': {'x': rats(xn), 'mult': case['cert']['mult']},
              'probes': [rats([rng.choice(DY) for _ in range(n)]) for _ in range(2)]}
        x0 = []
        for dv, a, b in ex.dv_slices():
            u = ufactor(dv['units'])
            lo = bcast(dv['lower'], dv['size'])
            hi = bcast(dv['upper'], dv['size'])
            for k in range(dv['size']):
                v = rng.choice(DY)
                if lo[k] is not None and v < lo[k] / u:
                    v = lo[k] / u
                if hi[k] is not None and v > hi[k] / u:
                    v = hi[k] / u
                x0.append(v)
        st['x0'] = rats(x0)
        stages.append(st)
    case['stages'] = stages
    if case['opt'] == 'trust-constr':
        case.setdefault('maxiter', 1000)      # tol 1e-9 needs more than the default budget
    if case['opt'] == 'trust-constr' and any(c_['linear'] for c_ in case['cons']):
        # keep_feasible=True on the LinearConstraint: start inside
        cks = stage_cases(case)
        case['x0'] = rats(feasible_start(rng, cks[0]))
        for st, ck in zip(stages, cks[1:]):
            st['x0'] = rats(feasible_start(rng, ck))
    for ck in stage_cases(case)[1:]:
        Exact(ck).check_certificate()


def gen_global_case(rng, opt):
    """Small strictly convex QP for a global optimizer: finite box on every variable (shgo and
    differential_evolution need one), shgo with a 2-element constraint carrying a non-uniform
    per-element bound pattern around a strictly feasible design, differential_evolution
    unconstrained.  Small budgets and a fixed seed keep a run well below a second."""
    n = rng.choice([2, 3])
    Q = spd(rng, n)
    xs = [rng.choice([F(k, 4) for k in range(-6, 7)]) for _ in range(n)]
    c = [-sum(F(Q[i][j]) * xs[j] for j in range(n)) + rng.choice(DY) for i in range(n)]
    box = rng.choice(['scalar', 'array'])
    lo = [F(-4)] * n if box == 'scalar' else [F(-4) - rng.choice([0, 1]) for _ in range(n)]
    hi = [F(4)] * n if box == 'scalar' else [F(4) + rng.choice([0, 1]) for _ in range(n)]
    dvs = [{'name': 'x', 'size': n, 'units': [None, None],
            'lower': rat(lo[0]) if box == 'scalar' else rats(lo),
            'upper': rat(hi[0]) if box == 'scalar' else rats(hi)}]
    rows, ds = [], []
    for _ in range(2):
        while True:
            row = [rng.choice([-2, -1, 0, 1, 2]) for _ in range(n)]
            if any(row):
                break
        rows.append(row)
        ds.append(rng.choice(DY))
    outs = [{'name': 'g1', 'rows': rows, 'd': rats(ds), 'phi': ['lin', 'lin'], 'units': [None, None]}]
    cons = []
    if opt == 'shgo':
        gv = [sum(F(a) * x for a, x in zip(row, xs)) + d for row, d in zip(rows, ds)]
        pats = rng.choice([('lo', 'hi'), ('hi', 'lo'), ('lo', 'both'), ('both', 'hi'), ('hi', 'both')])
        low = [gv[j] - rng.choice(SLACKS) if pats[j] in ('lo', 'both') else None for j in range(2)]
        upp = [gv[j] + rng.choice(SLACKS) if pats[j] in ('hi', 'both') else None for j in range(2)]
        cons = [{'out': 'g1', 'alias': None, 'indices': None, 'equals': None, 'linear': False,
                 'lower': [None if v is None else rat(v) for v in low],
                 'upper': [None if v is None else rat(v) for v in upp]}]
    x0 = [rng.choice([F(k, 2) for k in range(-4, 5)]) for _ in range(n)]
    case = {'opt': opt, 'n': n, 'Q': Q, 'c': rats(c), 'dvs': dvs, 'outs': outs, 'cons': cons,
            'obj': {'units': [None, None]}, 'cert': None, 'x0': rats(x0), 'probes': [],
            'maxiter': 60,
            'opt_settings': ({'popsize': 6, 'seed': rng.randint(1, 1000), 'tol': 0.01}
                             if opt == 'differential_evolution' else {})}
    case['scalings'] = [{'dvs': [{}], 'cons': [{} for _ in cons], 'obj': {}},
                        {'dvs': [gen_scaling(rng, n, F(1))], 'cons': [gen_scaling(rng, 2, F(1)) for _ in cons],
                         'obj': gen_scaling(rng, 1, F(1))}]
    return case


def mutate_negative(rng, case):
    """negative scaler on one inequality constraint (first scaling only)."""
    cand = [k for k, c in enumerate(case['cons']) if c['equals'] is None]
    if not cand:
        return
    ci = rng.choice(cand)
    con = case['cons'][ci]
    o = [q for q in case['outs'] if q['name'] == con['out']][0]
    k = len(con['indices']) if con['indices'] is not None else len(o['rows'])
    case['scalings'][0]['cons'][ci] = gen_scaling(rng, k, ufactor(o['units']), allow_none=False, neg=True)
    case['neg'] = ci


def mutate_infeasible(rng, case):
    """make one two-sided element contradictory (lower above upper): no feasible design exists."""
    for con in case['cons']:
        if con['equals'] is None and isinstance(con['lower'], list) and isinstance(con['upper'], list):
            for j, (l, h) in enumerate(zip(con['lower'], con['upper'])):
                if l is not None and h is not None:
                    con['lower'][j] = rat(unrat(h) + 3)
                    case['cert'] = None
                    case['infeasible'] = True
                    return


PROP = C21()
