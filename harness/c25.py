"""C25 — KS aggregation brackets the extremum and has exact gradients.

Streams on the real code:
  seq    one set-up Problem; the run-time options of the already set-up KSComp (rho, upper, lower_flag,
         minimum) are changed between evaluations (rho continuation, moving bound, flag toggles), with
         and without a new setup(); value, bracket and exact gradient are checked after every step
  comp   KSComp inside a Problem (IndepVarComp -> KSComp, optional unit conversion on the connection):
         outputs, total derivatives (compute_totals), complex step through KSComp.compute
  jax    openmdao.jax_funcs.ks_max / ks_min: value, jax.grad wrt x and wrt rho
  ksfun  the helper KSfunction.compute / KSfunction.derivatives directly
plus a tiny malformed stream (zero width / vec_size).

KSfunction.derivatives(...)[1] (dKS_drho) is modelled twice (`dKSdrhoCode`: the formula found in the
tree, `dKSdrhoExact`: the derivative); `setup` probes which one the tree implements (DRHO_FIXED is the
fallback) and the correspondence uses that one.  The `ksdrho` stream checks dKS_drho against the exact
derivative directly (known finding on the tree as found, see known_findings.d/C25.json).
"""
import math
import warnings
from decimal import Decimal, localcontext
from fractions import Fraction

import numpy as np

from common import Property, rat, unrat, rats

DRHO_FIXED = False

EPS = 2.0 ** -52
INF_BOUND = 1e30

# (source units, component units, factor, offset): g_in = (x + offset) * factor
UNIT_PAIRS = [('m', 'cm', 100.0, 0.0), ('m', 'km', 0.001, 0.0), ('degC', 'degK', 1.0, 273.15),
              ('cm', 'cm', 1.0, 0.0), ('ft', 'inch', 12.0, 0.0)]
UNIT_FACTOR = {(a, b): f for a, b, f, _ in UNIT_PAIRS}

WIDTHS = [1, 2, 2, 3, 3, 5, 8, 20]
JAX_SIZES = [1, 2, 3, 5, 8, 20]
RHO_SMALL = [1e-3, 0.01, 0.5, 1.0]
RHO_LARGE = [1e3, 1e4, 1e6]


# ------------------------------------------------------------------------------------------------
# generators

def gen_rho(rng):
    u = rng.random()
    if u < 0.35:
        return 50.0, 'default'
    if u < 0.55:
        return rng.choice(RHO_SMALL), 'small'
    if u < 0.75:
        return rng.choice(RHO_LARGE), 'large'
    if u < 0.85:
        return 100.0, 'jaxdefault'
    return float(10.0 ** rng.uniform(-2, 4)), 'random'


def gen_row(rng, n, rho):
    """One row of constraint values and the name of its family."""
    fam = rng.choice(['uniform', 'uniform', 'near', 'near', 'ties', 'alleq', 'bigmixed', 'ints',
                      'neg', 'neartie'])
    s = rng.choice([1e-3, 1.0, 1.0, 10.0, 1e3, 1e6])
    if fam == 'uniform':
        g = [rng.uniform(-s, s) for _ in range(n)]
    elif fam == 'near':
        # spacing of order 1/rho: several entries carry weight
        base = rng.choice([0.0, rng.uniform(-s, s)])
        g = [base + rng.uniform(0, 6) / rho for _ in range(n)]
    elif fam == 'ties':
        g = [rng.uniform(-s, s) for _ in range(n)]
        m = max(g)
        for _ in range(rng.randint(1, max(1, n - 1))):
            g[rng.randrange(n)] = m
    elif fam == 'alleq':
        v = rng.choice([0.0, 1.0, -1.0, 1e6, -1e6, rng.uniform(-s, s)])
        g = [v] * n
    elif fam == 'bigmixed':
        pool = [1e6, -1e6, 1e6 * (1 + 2.0 ** -30), 1e6 - 1.0 / rho, -1e6 + 1.0 / rho, 0.0,
                999999.5, 1e6 - 2.0 / rho]
        g = [rng.choice(pool) for _ in range(n)]
    elif fam == 'ints':
        g = [float(rng.randint(-5, 5)) for _ in range(n)]
    elif fam == 'neg':
        g = [-abs(rng.uniform(0, s)) - rng.choice([0.0, s]) for _ in range(n)]
    else:  # neartie: the two largest differ by one ulp-ish step
        g = [rng.uniform(-s, s) for _ in range(n)]
        m = max(g)
        g[rng.randrange(n)] = float(np.nextafter(m, -np.inf))
    rng.shuffle(g)
    return [float(v) for v in g], fam


def gen_upper(rng, rows):
    u = rng.random()
    flat = [v for r in rows for v in r]
    if u < 0.35:
        return 0.0
    if u < 0.55:
        return rng.choice(flat)            # the bound coincides with a value
    if u < 0.65:
        return rng.choice([1e6, -1e6, 0.5, -0.25, 3.0])
    s = max(1e-3, max(abs(v) for v in flat))
    return float(rng.uniform(-s, s))


def mag_class(vals):
    m = max([abs(v) for v in vals] + [0.0])
    if m >= 1e5:
        return 'mag>=1e5'
    if m >= 100:
        return 'mag>=1e2'
    if m >= 1e-2:
        return 'mag~1'
    return 'mag<1e-2'


# ------------------------------------------------------------------------------------------------
# high-precision reference (decimal, 60 digits) -- independent of the Lean model

def ref_row(c, rho):
    """Value, soft-max weights and d/drho of  m + ln(sum exp(rho (c_i - m))) / rho  in 60-digit
    decimal arithmetic on the exact values of the doubles `c`, `rho`."""
    with localcontext() as ctx:
        ctx.prec = 60
        cs = [Decimal(v) for v in c]
        r = Decimal(rho)
        m = max(cs)
        es = []
        for v in cs:
            a = r * (v - m)
            es.append(a.exp() if a > -3000 else Decimal(0))
        S = sum(es)
        lnS = S.ln()
        val = m + lnS / r
        w = [e / S for e in es]
        drho = sum((v - m) * e for v, e in zip(cs, es)) / (r * S) - lnS / (r * r)
        return val, w, drho


def D(x):
    return Decimal(x)


def close(a, ref, tol):
    """|a - ref| <= tol with a float `a`, Decimal `ref`."""
    with localcontext() as ctx:
        ctx.prec = 60
        return abs(Decimal(a) - ref) <= Decimal(tol)


def tol_value(ref, n, rho):
    return 8 * EPS * abs(float(ref)) + 16 * n * EPS / rho + 1e-300


def tol_weight(n):
    return 16 * (n + 1) * EPS


def tol_drho(ref, n, rho):
    return 8 * EPS * abs(float(ref)) + 32 * (n + 1) * EPS / (rho * rho) + 1e-300


def con_values(g_row, upper, lower_flag, minimum):
    """con_val of KSComp.compute: one IEEE subtraction per element, then exact sign flips."""
    c = [float(np.float64(v) - np.float64(upper)) for v in g_row]
    if lower_flag:
        c = [-v for v in c]
    if minimum:
        c = [-v for v in c]
    return c


def bracket_check(ks, g_row, upper, lower_flag, minimum, rho):
    """The property's bracket evaluated with exact rational max/min of the inputs.  Returns None or
    a message.  Tolerance: 4 ulp of the magnitudes involved (recorded in the evidence)."""
    n = len(g_row)
    gmax = Fraction(max(g_row))
    gmin = Fraction(min(g_row))
    up = Fraction(upper)
    L = math.log(n) / rho
    if not lower_flag and not minimum:
        lo, hi = gmax - up, gmax - up + Fraction(L)
    elif lower_flag and not minimum:
        lo, hi = up - gmin, up - gmin + Fraction(L)
    elif minimum and not lower_flag:
        lo, hi = gmin - up - Fraction(L), gmin - up
    else:
        lo, hi = up - gmax - Fraction(L), up - gmax
    mag = max(abs(float(gmax)), abs(float(gmin)), abs(upper), abs(ks))
    tol = Fraction(4 * EPS * mag + 4 * EPS * L + 1e-300)
    k = Fraction(ks)
    if k < lo - tol:
        return 'value below the bracket', '%r not in [%r, %r]' % (ks, float(lo), float(hi))
    if k > hi + tol:
        return 'value above the bracket', '%r not in [%r, %r]' % (ks, float(lo), float(hi))
    return None


def floats(xs):
    return [float(unrat(x)) for x in xs]


def err_enum(e):
    return type(e).__name__


def seq_subcases(case):
    """The `comp`-shaped case equivalent to every step of a `seq` case (options in force then)."""
    cur = dict(case['init'])
    x = None
    out = []
    for st in case['steps']:
        cur.update(st['set'])
        if st['x'] is not None:
            x = st['x']
        out.append({'kind': 'comp', 'vec': case['vec'], 'width': case['width'], 'x': x,
                    'upper': cur['upper'], 'lower_flag': cur['lower_flag'],
                    'minimum': cur['minimum'], 'rho': cur['rho'], 'rho_int': False,
                    'units': case['units'], 'add_constraint': False, 'dir': st['dir']})
    return out


# ------------------------------------------------------------------------------------------------

class C25(Property):
    pid = 'C25'
    required_theorems = ['C25_max_is_max', 'C25_min_is_min', 'C25_bracket', 'C25_shift_invariant',
                         'C25_unshifted', 'C25_min_mirror', 'C25_grad', 'C25_grad_sums_to_one',
                         'C25_grad_nonneg', 'C25_min_grad', 'C25_comp_bracket', 'C25_comp_grad',
                         'C25_comp_partials_sum', 'C25_pattern', 'C25_partials_entry', 'C25_drho',
                         'C25_drho_code_partial', 'C25_drho_code_wrong',
                         'C25_drho_code_counterexample']
    rule = ("cases: rows of width 1-20 from the families {uniform at scale 1e-3..1e6, spacing ~1/rho, "
            "exact ties of the maximum, all equal, +-1e6 mixtures, small integers, all negative, "
            "one-ulp near tie} x rho in {1e-3..1 small, 50, 100, 1e3..1e6 large, log-uniform} x "
            "vec_size 1-5 x {upper = 0 / equal to an entry / random / +-1e6} x lower_flag x minimum x "
            "units (unit conversion on the connection) x add_constraint, run on a real Problem "
            "(fresh per case, plus multi-step sequences on one set-up Problem where rho / upper / "
            "lower_flag / minimum are changed through ks.options between evaluations, with and "
            "without a new setup(), every step checked) "
            "(IndepVarComp -> KSComp; get_val, compute_totals, complex step through KSComp.compute), "
            "on jax ks_max / ks_min (value, jax.grad wrt x and rho) and on KSfunction.compute / "
            "derivatives. Non-trivial: width >= 2 and the soft-max weight is not concentrated on one "
            "entry (largest weight < 1 - 1e-12); distinct by canonical case encoding.")
    assumptions = [
        "rho > 0 and finite inputs, as in the property statement; |g| <= 1e8, 1e-3 <= rho <= 1e6",
        "floating point by tolerance: the oracle takes con_val = fl(g - upper) (one IEEE subtraction "
        "per element, mirrored in the oracle) and compares with a 60-digit decimal evaluation of "
        "m + ln(sum exp(rho (c_i - m)))/rho, its soft-max weights and its rho-derivative",
    ]
    tolerance = {
        'oracle_value': '8 eps |ref| + 16 n eps / rho',
        'oracle_weight': '16 (n+1) eps (times the unit factor for totals)',
        'oracle_drho': '8 eps |ref| + 32 (n+1) eps / rho^2',
        'oracle_bracket': '4 eps max(|g|, |upper|, |KS|) + 4 eps ln(n)/rho around the exact max/min',
        'oracle_complex_step': 'weight tolerance times sum |d_i|',
        'model_vs_impl': '|a-b| <= 1e-13 (1 + max(|a|,|b|)) + 1e-13/rho (values), '
                         '1e-13 (1 + |unit factor|)(1 + max(|a|,|b|)) (partials), '
                         '1e-13 (1 + max(|a|,|b|)) + 1e-13/rho^2 (drho)',
        'eps': EPS,
    }
    level_text = ("Over the reals (Mathlib, Real.exp / Real.log / HasDerivAt) and for rows of any "
                  "length: the shifted log-sum-exp of the code brackets the maximum within ln(n)/rho, "
                  "does not depend on the shift, ks_min is its mirror image, the weights returned by "
                  "KSfunction.derivatives are the exact gradient (also at ties) and sum to one, and for "
                  "every combination of upper / lower_flag / minimum KSComp.compute_partials is the exact "
                  "gradient of what KSComp.compute returns, stored at the declared rows/cols. The same "
                  "Lean definitions, instantiated at Float, are compared with KSComp, jax ks_max/ks_min "
                  "and KSfunction on generated inputs, and the bracket and gradients are checked "
                  "directly against exact maxima and a 60-digit reference.")
    level_note = ("The model is polymorphic over a carrier with (exp, log); the theorems are about that "
                  "model at the reals, the driver executes it at IEEE doubles with libm exp/log, so the "
                  "tie between theorem and code is definitional in structure and numerical (recorded "
                  "tolerances) in value. Trusted: Lean kernel + standard axioms, Mathlib's real analysis, "
                  "the harness, Python decimal, NumPy max/min. Modelled, not verified: rounding, overflow "
                  "protection (the reals do not overflow; shift invariance is the reason the shift is "
                  "harmless), jax AD (third party: the model states the soft-min weights, jax.grad is "
                  "compared with them), OpenMDAO's total-derivative assembly and unit conversion on the "
                  "connection (differential only). KSfunction.derivatives(...)[1] (dKS_drho, not used by "
                  "KSComp) is not the derivative of the value: proved in Lean (C25_drho_code_wrong) and "
                  "listed as a known finding.")
    technique = ("Lean 4 + Mathlib real-analysis proofs about an (exp, log)-polymorphic model; Float "
                 "instance of the same model vs real code; direct bracket / 60-digit gradient oracle")
    trusted_extra = ["Mathlib real analysis (Real.exp, Real.log, HasDerivAt calculus)",
                     "libm exp/log behind Lean's Float (driver) — compared by tolerance only",
                     "Python decimal (60 digits) as the reference for exp/ln in the direct oracle",
                     "jax automatic differentiation (compared, not modelled)"]
    workers = 1

    # -- set-up ------------------------------------------------------------------------------------
    def setup(self, tier):
        import openmdao.api  # noqa: F401  (import cost outside the timed loop)
        self._jax = None
        # which of the two modelled dKS_drho formulas the tree implements (probe on the witness of
        # C25_drho_code_counterexample: the code as found returns 0, the exact derivative is -ln 2)
        self.drho_fixed = DRHO_FIXED
        try:
            from openmdao.components.ks_comp import KSfunction
            v = float(np.asarray(KSfunction.derivatives(np.zeros(2), 1.0)[1]).ravel()[0])
            if abs(v + math.log(2.0)) < 1e-12:
                self.drho_fixed = True
            elif abs(v) < 1e-12:
                self.drho_fixed = False
        except Exception:
            pass

    def jax_fns(self):
        if self._jax is None:
            import jax
            from openmdao.jax_funcs import ks_max, ks_min
            self._jax = {
                'ks_max': (ks_max, jax.jit(jax.grad(ks_max, argnums=(0, 1)))),
                'ks_min': (ks_min, jax.jit(jax.grad(ks_min, argnums=(0, 1)))),
            }
        return self._jax

    # -- cases -------------------------------------------------------------------------------------
    def cases(self, rng, tier):
        k = 1 if tier == 'quick' else 20
        for _ in range(40 * k):
            yield self.gen_seq(rng)
        for _ in range(600 * k):
            yield self.gen_comp(rng)
        for _ in range(250 * k):
            yield self.gen_jax(rng)
        for _ in range(150 * k):
            yield self.gen_ksfun(rng)
        for _ in range(20 * k):
            c = self.gen_ksfun(rng)
            c['kind'] = 'ksdrho'      # same call; the oracle also checks dKS_drho
            yield c
        for _ in range(4):
            yield {'kind': 'bad', 'width': rng.choice([0, 1, 3]), 'vec': 0} if rng.random() < 0.5 \
                else {'kind': 'bad', 'width': 0, 'vec': rng.choice([1, 2])}

    def gen_comp(self, rng):
        rho, rcls = gen_rho(rng)
        vec = rng.choice([1, 1, 2, 3, 5])
        w = rng.choice(WIDTHS)
        rows, fams = [], []
        for _ in range(vec):
            r, f = gen_row(rng, w, rho)
            rows.append(r)
            fams.append(f)
        upper = gen_upper(rng, rows)
        units = None
        if rng.random() < 0.35:
            a, b, _, _ = rng.choice(UNIT_PAIRS)
            units = [a, b]
        rho_int = rho == 50.0 and rng.random() < 0.2
        d = [[float(rng.randint(-3, 3)) if rng.random() < 0.5 else rng.uniform(-1, 1)
              for _ in range(w)] for _ in range(vec)]
        return {'kind': 'comp', 'vec': vec, 'width': w, 'x': [rats(r) for r in rows],
                'upper': rat(upper), 'lower_flag': rng.random() < 0.4, 'minimum': rng.random() < 0.35,
                'rho': rat(rho), 'rho_int': rho_int, 'rho_class': rcls, 'units': units,
                'add_constraint': rng.random() < 0.3, 'dir': [rats(r) for r in d], 'fam': fams}

    def gen_seq(self, rng):
        """Multi-step sequence on one set-up Problem (rho continuation, moving bound, flag toggles)."""
        vec = rng.choice([1, 2, 3])
        w = rng.choice([2, 3, 3, 5, 6, 8])
        rho = rng.choice([1.0, 5.0, 5.0, 20.0, 50.0, 100.0])

        def rows_for(r):
            rows, fams = [], []
            for _ in range(vec):
                if rng.random() < 0.6:
                    # entries within a few 1/rho of each other (and sometimes tied): live weights
                    base = rng.choice([0.0, rng.uniform(-3, 3)])
                    g = [base + rng.uniform(0, 4) / r for _ in range(w)]
                    if rng.random() < 0.4:
                        g[rng.randrange(w)] = max(g)
                    rows.append([float(v) for v in g])
                    fams.append('near')
                else:
                    g, f = gen_row(rng, w, r)
                    rows.append(g)
                    fams.append(f)
            return rows, fams

        def direction():
            return [rats([float(rng.randint(-3, 3)) if rng.random() < 0.5 else rng.uniform(-1, 1)
                          for _ in range(w)]) for _ in range(vec)]

        rows, fams = rows_for(rho)
        init = {'upper': rat(gen_upper(rng, rows) if rng.random() < 0.5 else 0.0),
                'lower_flag': rng.random() < 0.3, 'minimum': rng.random() < 0.3, 'rho': rat(rho)}
        cur = dict(init)
        steps = [{'set': {}, 'x': [rats(r) for r in rows], 'resetup': False, 'dir': direction()}]
        style = rng.choice(['rho', 'rho', 'rho', 'mixed', 'mixed', 'upper', 'flags'])
        for _ in range(rng.randint(2, 4)):
            st = {}
            names = {'rho': ['rho'], 'upper': ['upper'], 'flags': [rng.choice(['lower_flag', 'minimum'])],
                     'mixed': rng.sample(['rho', 'upper', 'lower_flag', 'minimum'],
                                         rng.randint(1, 3))}[style]
            for name in names:
                if name == 'rho':
                    rho = float(rho * rng.choice([2.0, 4.0, 4.0, 16.0, 0.25, 0.5]))
                    rho = min(max(rho, 0.01), 1e5)
                    st['rho'] = rat(rho)
                elif name == 'upper':
                    st['upper'] = rat(gen_upper(rng, rows))
                else:
                    st[name] = not cur[name]
            cur.update(st)
            newx = None
            if rng.random() < 0.35:
                rows, f2 = rows_for(rho)
                fams = fams + f2
                newx = [rats(r) for r in rows]
            steps.append({'set': st, 'x': newx, 'resetup': rng.random() < 0.2, 'dir': direction()})
        units = None
        if rng.random() < 0.2:
            a, b, _, _ = rng.choice(UNIT_PAIRS)
            units = [a, b]
        return {'kind': 'seq', 'vec': vec, 'width': w, 'init': init, 'steps': steps, 'units': units,
                'style': style, 'fam': sorted(set(fams)), 'rho_class': 'sequence'}

    def gen_jax(self, rng):
        rho, rcls = gen_rho(rng)
        n = rng.choice(JAX_SIZES)
        x, fam = gen_row(rng, n, rho)
        return {'kind': 'jax', 'fn': rng.choice(['ks_max', 'ks_min']), 'x': rats(x), 'rho': rat(rho),
                'rho_class': rcls, 'fam': [fam]}

    def gen_ksfun(self, rng):
        rho, rcls = gen_rho(rng)
        n = rng.choice(WIDTHS)
        flat = rng.random() < 0.4
        rows, fams = [], []
        for _ in range(1 if flat else rng.choice([1, 2, 3])):
            r, f = gen_row(rng, n, rho)
            rows.append(r)
            fams.append(f)
        return {'kind': 'ksfun', 'flat': flat, 'g': [rats(r) for r in rows], 'rho': rat(rho),
                'rho_class': rcls, 'fam': fams}

    # -- real code ---------------------------------------------------------------------------------
    def run_impl(self, case):
        try:
            with warnings.catch_warnings():
                warnings.simplefilter('ignore')
                return getattr(self, 'impl_' + case['kind'])(case)
        except Exception as e:      # an exception of the real code is a result
            return {'error': err_enum(e), 'msg': str(e)[:200]}

    def impl_comp(self, case):
        import openmdao.api as om
        vec, w = case['vec'], case['width']
        rho = float(unrat(case['rho']))
        if case['rho_int']:
            rho = int(rho)
        x = np.array([floats(r) for r in case['x']]).reshape(vec, w)
        src_units, units = case['units'] if case['units'] else (None, None)
        p = om.Problem()
        p.model.add_subsystem('ivc', om.IndepVarComp('x', np.zeros((vec, w)), units=src_units))
        p.model.add_subsystem('ks', om.KSComp(width=w, vec_size=vec, units=units,
                                              upper=float(unrat(case['upper'])),
                                              lower_flag=case['lower_flag'], minimum=case['minimum'],
                                              rho=rho, add_constraint=case['add_constraint']))
        p.model.connect('ivc.x', 'ks.g')
        p.setup(force_alloc_complex=True)
        p.set_val('ivc.x', x)
        res = self._evaluate(p, vec, w, case['dir'])
        if case['add_constraint']:
            cons = p.model.get_constraints()
            res['cons'] = {k: {'upper': float(np.max(np.atleast_1d(v['upper']))),
                               'lower': float(np.min(np.atleast_1d(v['lower']))),
                               'equals': v['equals'] is not None}
                           for k, v in cons.items()}
        else:
            res['cons'] = sorted(p.model.get_constraints())
        return res

    @staticmethod
    def _evaluate(p, vec, w, direction):
        """run_model, outputs, total derivatives and a complex step straight through compute()."""
        p.run_model()
        g_in = np.array(p.get_val('ks.g'), dtype=float)
        ks = np.array(p.get_val('ks.KS'), dtype=float)
        J = np.array(p.compute_totals(of=['ks.KS'], wrt=['ivc.x'])[('ks.KS', 'ivc.x')], dtype=float)
        d = np.array([floats(r) for r in direction]).reshape(vec, w)
        out = {}
        h = 1e-40
        p.model.ks.compute({'g': g_in + 1j * h * d}, out)
        cs = (np.asarray(out['KS']).imag / h).ravel()
        return {'shape_ks': list(ks.shape), 'shape_J': list(J.shape),
                'g_in': [rats(r) for r in g_in.tolist()], 'ks': rats(ks.ravel().tolist()),
                'J': [rats(r) for r in J.tolist()], 'cs': rats(cs.tolist())}

    def impl_seq(self, case):
        """One Problem, set up once; between evaluations the run-time options of the already set-up
        KSComp (rho, upper, lower_flag, minimum: read from `options` in compute / compute_partials) are
        changed through `ks.options[...] = ...`, inputs may change, and a step may call setup() again."""
        import openmdao.api as om
        vec, w = case['vec'], case['width']
        src_units, units = case['units'] if case['units'] else (None, None)
        o0 = case['init']
        p = om.Problem()
        p.model.add_subsystem('ivc', om.IndepVarComp('x', np.zeros((vec, w)), units=src_units))
        ks = p.model.add_subsystem('ks', om.KSComp(width=w, vec_size=vec, units=units,
                                                   upper=float(unrat(o0['upper'])),
                                                   lower_flag=o0['lower_flag'],
                                                   minimum=o0['minimum'],
                                                   rho=float(unrat(o0['rho']))))
        p.model.connect('ivc.x', 'ks.g')
        p.setup(force_alloc_complex=True)
        x = None
        steps = []
        for k, st in enumerate(case['steps']):
            try:
                for name, v in sorted(st['set'].items()):
                    ks.options[name] = v if isinstance(v, bool) else float(unrat(v))
                if st['resetup']:
                    p.setup(force_alloc_complex=True)
                if st['x'] is not None:
                    x = np.array([floats(r) for r in st['x']]).reshape(vec, w)
                if st['x'] is not None or st['resetup']:
                    p.set_val('ivc.x', x)
                res = self._evaluate(p, vec, w, st['dir'])
                res['cons'] = sorted(p.model.get_constraints())
                steps.append(res)
            except Exception as e:
                steps.append({'error': err_enum(e), 'msg': str(e)[:200]})
                break
        return {'steps': steps}

    def impl_jax(self, case):
        import jax.numpy as jnp
        f, gf = self.jax_fns()[case['fn']]
        x = jnp.asarray(np.array(floats(case['x'])))
        rho = float(unrat(case['rho']))
        v = float(f(x, rho))
        gx, gr = gf(x, rho)
        return {'value': rat(v), 'grad': rats(np.asarray(gx, dtype=float).tolist()),
                'drho': rat(float(gr))}

    def impl_ksfun(self, case):
        from openmdao.components.ks_comp import KSfunction
        rho = float(unrat(case['rho']))
        g = np.array([floats(r) for r in case['g']])
        if case['flat']:
            g = g[0]
        v = np.asarray(KSfunction.compute(g, rho), dtype=float)
        dg, dr = KSfunction.derivatives(g, rho)
        dg = np.atleast_2d(np.asarray(dg, dtype=float))
        return {'value': rats(v.ravel().tolist()), 'dg': [rats(r) for r in dg.tolist()],
                'drho': rats(np.asarray(dr, dtype=float).ravel().tolist())}

    impl_ksdrho = impl_ksfun

    def impl_bad(self, case):
        import openmdao.api as om
        p = om.Problem()
        p.model.add_subsystem('ks', om.KSComp(width=case['width'], vec_size=case['vec']))
        p.setup()
        p.run_model()
        return {'ks': rats(np.asarray(p.get_val('ks.KS')).ravel().tolist())}

    # -- direct oracle -----------------------------------------------------------------------------
    def oracle(self, case, impl):
        return getattr(self, 'oracle_' + case['kind'])(case, impl)

    def oracle_bad(self, case, impl):
        return None       # nothing of the property is at stake; the error branch is only compared

    def oracle_comp(self, case, impl):
        if 'error' in impl:
            return {'what': 'KSComp raised %s' % impl['error'], 'msg': impl.get('msg')}
        vec, w = case['vec'], case['width']
        rho = float(unrat(case['rho']))
        upper = float(unrat(case['upper']))
        lf, mn = case['lower_flag'], case['minimum']
        if impl['shape_ks'] != [vec, 1] or impl['shape_J'] != [vec, vec * w]:
            return {'what': 'shape of KS / totals', 'got': [impl['shape_ks'], impl['shape_J']]}
        fac = UNIT_FACTOR[tuple(case['units'])] if case['units'] else 1.0
        ks = floats(impl['ks'])
        cs = floats(impl['cs'])
        s_out = -1.0 if mn else 1.0
        s_par = -1.0 if lf else 1.0
        for r in range(vec):
            g_row = floats(impl['g_in'][r])
            msg = bracket_check(ks[r], g_row, upper, lf, mn, rho)
            if msg:
                return {'what': msg[0], 'row': r, 'detail': msg[1]}
            c = con_values(g_row, upper, lf, mn)
            val, wts, _ = ref_row(c, rho)
            ref = val * D(s_out)
            if not close(ks[r], ref, tol_value(ref, w, rho)):
                return {'what': 'value differs from the reference', 'row': r, 'got': ks[r],
                        'expected': float(ref)}
            Jr = floats(impl['J'][r])
            tw = tol_weight(w)
            for cidx in range(vec * w):
                if cidx // w != r:
                    if Jr[cidx] != 0.0:
                        return {'what': 'nonzero derivative across rows', 'row': r, 'col': cidx,
                                'got': Jr[cidx]}
                    continue
                refd = wts[cidx % w] * D(s_par) * D(fac)
                if not close(Jr[cidx], refd, tw * abs(fac) + 4 * EPS * abs(float(refd))):
                    return {'what': 'partial differs from the exact gradient', 'row': r,
                            'col': cidx, 'got': Jr[cidx], 'expected': float(refd)}
            ssum = sum(Jr[r * w:(r + 1) * w]) / fac
            if abs(ssum - s_par) > 4 * tw * w:
                return {'what': 'gradient does not sum to +-1', 'row': r, 'got': ssum,
                        'expected': s_par}
            d = floats(case['dir'][r])
            refcs = sum(wt * D(s_par) * D(di) for wt, di in zip(wts, d))
            if not close(cs[r], refcs, tw * sum(abs(v) for v in d) + 4 * EPS * abs(float(refcs))
                         + 1e-300):
                return {'what': 'complex step through compute differs from the exact gradient',
                        'row': r, 'got': cs[r], 'expected': float(refcs)}
        if case['add_constraint']:
            con = impl['cons']
            if list(con) != ['ks.KS'] or con['ks.KS']['upper'] != 0.0 \
                    or con['ks.KS']['lower'] != -INF_BOUND or con['ks.KS']['equals']:
                return {'what': 'add_constraint did not add KS <= 0', 'got': con}
        elif impl['cons']:
            return {'what': 'constraint added without add_constraint', 'got': impl['cons']}
        return None

    def oracle_seq(self, case, impl):
        subs = seq_subcases(case)
        for k, (sub, res) in enumerate(zip(subs, impl['steps'])):
            f = self.oracle_comp(sub, res)
            if f is not None:
                st = case['steps'][k]
                f = dict(f)
                f.update(step=k, changed=sorted(st['set']), resetup=st['resetup'],
                         new_inputs=st['x'] is not None)
                f['what'] = 'after changing %s on a set-up component%s: %s' % (
                    '+'.join(sorted(st['set'])) or 'nothing',
                    ' and calling setup() again' if st['resetup'] else '', f['what'])
                return f
        if len(impl['steps']) != len(subs):
            return {'what': 'sequence stopped early', 'steps_done': len(impl['steps'])}
        return None

    def oracle_jax(self, case, impl):
        if 'error' in impl:
            return {'what': '%s raised %s' % (case['fn'], impl['error']), 'msg': impl.get('msg')}
        x = floats(case['x'])
        n = len(x)
        rho = float(unrat(case['rho']))
        is_min = case['fn'] == 'ks_min'
        v = float(unrat(impl['value']))
        # ks_max: [max, max + ln n / rho];  ks_min: [min - ln n / rho, min]
        msg = bracket_check(v, x, 0.0, False, is_min, rho)
        if msg:
            return {'what': msg[0], 'detail': msg[1]}
        c = [-t for t in x] if is_min else x
        val, wts, drho = ref_row(c, rho)
        s = D(-1) if is_min else D(1)
        if not close(v, s * val, tol_value(val, n, rho)):
            return {'what': 'value differs from the reference', 'got': v, 'expected': float(s * val)}
        g = floats(impl['grad'])
        if len(g) != n:
            return {'what': 'gradient shape', 'got': len(g)}
        tw = tol_weight(n)
        for i in range(n):
            if not close(g[i], wts[i], tw):
                return {'what': 'jax.grad differs from the exact gradient', 'i': i, 'got': g[i],
                        'expected': float(wts[i])}
        if abs(sum(g) - 1.0) > 4 * tw * n:
            return {'what': 'gradient does not sum to +-1', 'got': sum(g)}
        gr = float(unrat(impl['drho']))
        if not close(gr, s * drho, tol_drho(drho, n, rho)):
            return {'what': 'jax.grad wrt rho differs from the exact derivative', 'got': gr,
                    'expected': float(s * drho)}
        return None

    def oracle_ksfun(self, case, impl):
        if 'error' in impl:
            return {'what': 'KSfunction raised %s' % impl['error'], 'msg': impl.get('msg')}
        rho = float(unrat(case['rho']))
        vals = floats(impl['value'])
        drs = floats(impl['drho'])
        if len(vals) != len(case['g']) or len(impl['dg']) != len(case['g']):
            return {'what': 'shape of KSfunction results'}
        late = None
        for r, row in enumerate(case['g']):
            g = floats(row)
            n = len(g)
            msg = bracket_check(vals[r], g, 0.0, False, False, rho)
            if msg:
                return {'what': msg[0], 'row': r, 'detail': msg[1]}
            val, wts, drho = ref_row(g, rho)
            if not close(vals[r], val, tol_value(val, n, rho)):
                return {'what': 'value differs from the reference', 'row': r, 'got': vals[r],
                        'expected': float(val)}
            dg = floats(impl['dg'][r])
            for i in range(n):
                if not close(dg[i], wts[i], tol_weight(n)):
                    return {'what': 'dKS_dg differs from the exact gradient', 'row': r, 'i': i,
                            'got': dg[i], 'expected': float(wts[i])}
            if case['kind'] == 'ksdrho' and late is None \
                    and not close(drs[r], drho, tol_drho(drho, n, rho)):
                late = {'what': 'dKS_drho differs from the exact derivative of KSfunction.compute',
                        'row': r, 'got': drs[r], 'expected': float(drho)}
        return late

    oracle_ksdrho = oracle_ksfun

    def signature(self, case, impl, failure):
        sig = {'kind': case['kind'], 'what': failure.get('what')}
        if case['kind'] == 'comp':
            sig.update(lower_flag=case['lower_flag'], minimum=case['minimum'])
        if case['kind'] == 'seq':
            sig.update(changed=failure.get('changed'), resetup=failure.get('resetup'))
        if case['kind'] == 'jax':
            sig['fn'] = case['fn']
        return sig

    # -- coverage ----------------------------------------------------------------------------------
    def _rows(self, case):
        if case['kind'] == 'comp':
            return [floats(r) for r in case['x']]
        if case['kind'] == 'jax':
            return [floats(case['x'])]
        if case['kind'] in ('ksfun', 'ksdrho'):
            return [floats(r) for r in case['g']]
        return []

    def nontrivial(self, case, impl):
        if case['kind'] == 'bad' or 'error' in impl:
            return False
        if case['kind'] == 'seq':
            # some step after an option change has live weights on more than one entry
            for k, (sub, res) in enumerate(zip(seq_subcases(case), impl['steps'])):
                if k == 0 or 'error' in res or not case['steps'][k]['set']:
                    continue
                for row in res['g_in']:
                    c = con_values(floats(row), float(unrat(sub['upper'])), sub['lower_flag'],
                                   sub['minimum'])
                    _, wts, _ = ref_row(c, float(unrat(sub['rho'])))
                    if max(wts) < 1 - Decimal('1e-6'):
                        return True
            return False
        rho = float(unrat(case['rho']))
        for row in self._rows(case):
            if len(row) < 2:
                continue
            if case['kind'] == 'jax' and case['fn'] == 'ks_min':
                row = [-v for v in row]
            _, wts, _ = ref_row(row, rho)
            if max(wts) < 1 - Decimal('1e-12'):
                return True
        return False

    def bucket(self, case, impl):
        b = ['kind=' + case['kind'], 'impl_error' if 'error' in impl else 'impl_ok']
        if case['kind'] == 'bad':
            return b
        if case['kind'] == 'seq':
            b.append('seq_style=' + case['style'])
            b.append('seq_steps=%d' % len(case['steps']))
            b.append('seq_live_weights_after_change' if self.nontrivial(case, impl)
                     else 'seq_one_hot_after_change')
            for st in case['steps'][1:]:
                for name in st['set']:
                    b.append('seq_set_' + name)
                if st['resetup']:
                    b.append('seq_resetup_step')
                if st['x'] is not None:
                    b.append('seq_new_inputs_step')
            if case['units']:
                b.append('seq_units')
            return b
        rows = self._rows(case)
        w = len(rows[0])
        b.append('width=%s' % (w if w <= 3 else ('4-8' if w <= 8 else '>8')))
        b.append('rho=' + case['rho_class'])
        b.append(mag_class([v for r in rows for v in r]))
        b.extend(sorted(set('fam=' + f for f in case['fam'])))
        if any(len(r) > 1 and sorted(r)[-1] == sorted(r)[-2] for r in rows):
            b.append('tie_of_max')
        if any(len(r) > 1 and sorted(r)[0] == sorted(r)[1] for r in rows):
            b.append('tie_of_min')
        b.append('spread' if self.nontrivial(case, impl) else 'one_hot_or_width1')
        if case['kind'] == 'comp':
            b.append('vec=%d' % case['vec'])
            b.append('flags=%s%s' % ('L' if case['lower_flag'] else '-', 'M' if case['minimum'] else '-'))
            b.append('upper=0' if unrat(case['upper']) == 0 else 'upper!=0')
            b.append('units=%s' % ('none' if not case['units'] else '->'.join(case['units'])))
            if case['add_constraint']:
                b.append('add_constraint')
            if case['rho_int']:
                b.append('rho_python_int')
        if case['kind'] == 'jax':
            b.append('fn=' + case['fn'])
        if case['kind'] in ('ksfun', 'ksdrho'):
            b.append('g_1d' if case['flat'] else 'g_2d')
        return b

    # -- model -------------------------------------------------------------------------------------
    def model_requests(self, case, impl):
        if case['kind'] == 'bad':
            return [{'op': 'comp', 'upper': '0/1', 'rho': '50/1', 'lower_flag': False,
                     'minimum': False, 'vec_size': case['vec'], 'width': case['width'],
                     'g': [[] for _ in range(case['vec'])] if case['width'] == 0 else []}]
        if 'error' in impl:
            return []
        if case['kind'] == 'seq':
            # the model is a function of the options in force at each evaluation
            if any('error' in r for r in impl['steps']):
                return []
            return [self.model_requests(sub, res)[0]
                    for sub, res in zip(seq_subcases(case), impl['steps'])]
        if case['kind'] == 'comp':
            return [{'op': 'comp', 'upper': case['upper'], 'rho': case['rho'],
                     'lower_flag': case['lower_flag'], 'minimum': case['minimum'],
                     'vec_size': case['vec'], 'width': case['width'], 'g': impl['g_in']}]
        if case['kind'] == 'jax':
            return [{'op': 'jax', 'fn': case['fn'], 'rho': case['rho'], 'x': case['x']}]
        return [{'op': 'ksfun', 'rho': case['rho'], 'g': case['g']}]

    @staticmethod
    def _cmp(a, b, rel, absol):
        a = float(a if isinstance(a, Fraction) else unrat(a))
        b = float(b if isinstance(b, Fraction) else unrat(b))
        return abs(a - b) <= rel * (1 + max(abs(a), abs(b))) + absol

    def compare(self, case, impl, answers):
        if case['kind'] == 'seq':
            for k, (sub, res, a) in enumerate(zip(seq_subcases(case), impl['steps'], answers)):
                d = self.compare(sub, res, [a])
                if d is not None:
                    return 'step %d (set %s): %s' % (k, sorted(case['steps'][k]['set']), d)
            return None
        a = answers[0]
        if case['kind'] == 'bad':
            if ('error' in impl) != (not a.get('ok')):
                return 'error branch: implementation %s, model %s' % (impl, a)
            return None
        if not a.get('ok'):
            return 'model rejected (%s), implementation returned a result' % a.get('err')
        rho = float(unrat(case['rho']))
        if case['kind'] == 'comp':
            vec, w = case['vec'], case['width']
            fac = UNIT_FACTOR[tuple(case['units'])] if case['units'] else 1.0
            for r in range(vec):
                if not self._cmp(a['ks'][r], impl['ks'][r], 1e-13, 1e-13 / rho):
                    return 'KS[%d]: model %s, implementation %s' % (r, a['ks'][r], impl['ks'][r])
            dense = [[Fraction(0)] * (vec * w) for _ in range(vec)]
            if len(a['rows']) != vec * w or len(a['cols']) != vec * w or len(a['vals']) != vec * w:
                return 'model pattern has %d entries' % len(a['rows'])
            for rr, cc, v in zip(a['rows'], a['cols'], a['vals']):
                dense[rr][cc] += unrat(v) * Fraction(fac)
            for r in range(vec):
                for c in range(vec * w):
                    if not self._cmp(dense[r][c], impl['J'][r][c], 1e-13 * (1 + abs(fac)), 0.0):
                        return 'J[%d][%d]: model %s, implementation %s' % (
                            r, c, float(dense[r][c]), float(unrat(impl['J'][r][c])))
            return None
        if case['kind'] == 'jax':
            if not self._cmp(a['value'], impl['value'], 1e-13, 1e-13 / rho):
                return 'value: model %s, implementation %s' % (a['value'], impl['value'])
            for i, (u, v) in enumerate(zip(a['grad'], impl['grad'])):
                if not self._cmp(u, v, 1e-13, 0.0):
                    return 'grad[%d]: model %s, implementation %s' % (i, u, v)
            if len(a['grad']) != len(impl['grad']):
                return 'grad length'
            if not self._cmp(a['drho'], impl['drho'], 1e-13, 1e-13 / rho ** 2):
                return 'drho: model %s, implementation %s' % (a['drho'], impl['drho'])
            return None
        # ksfun
        key = 'drho_exact' if self.drho_fixed else 'drho_code'
        for r in range(len(case['g'])):
            if not self._cmp(a['value'][r], impl['value'][r], 1e-13, 1e-13 / rho):
                return 'value[%d]: model %s, implementation %s' % (r, a['value'][r], impl['value'][r])
            for i, (u, v) in enumerate(zip(a['dg'][r], impl['dg'][r])):
                if not self._cmp(u, v, 1e-13, 0.0):
                    return 'dg[%d][%d]: model %s, implementation %s' % (r, i, u, v)
            if not self._cmp(a[key][r], impl['drho'][r], 1e-13, 1e-13 / rho ** 2):
                return '%s[%d]: model %s, implementation %s' % (key, r, a[key][r], impl['drho'][r])
        return None


PROP = C25()
