"""C15 — table interpolation is exact on nodes and reproduces its polynomial degree.

A case is one table (method, 1-3 strictly increasing dyadic grids of any sign, table values sampled
from a random polynomial of the method's exactness degree or random dyadic values), one consumer
(`InterpND.interpolate` or a `MetaModelStructuredComp` inside a `Problem`) and a *sequence* of query
batches evaluated on the same object (single point = non-vectorized path of the fixed-dimension
tables, several points = vectorized path).  Points are grid nodes, cell interiors, the two table
boundaries and points outside by margins >> 1e-14*|g|.

* correspondence: the Lean driver evaluates `OMV.C15` (bounds pre-check, bracketing, kernels,
  recursion over dimensions, fixed-dimension formulas) in exact rationals on the same inputs; the
  error class must agree exactly and the values to 1e-10 (relative to the table magnitude).
* direct oracle (no Lean): table value at nodes; the generating polynomial evaluated exactly with
  `fractions.Fraction` at every in-bounds point; an error iff some coordinate is outside its grid
  (extrapolation off); the fixed-dimension table against the general one on the same input.

scipy-wrapped methods (`scipy_*`) are third-party code and out of scope.
"""
import warnings
from fractions import Fraction

import numpy as np

from common import Property, rat, unrat, rats

GENERAL = ['slinear', 'lagrange2', 'lagrange3', 'akima', 'cubic']
FIXED = {1: ['1D-slinear', '1D-lagrange2', '1D-lagrange3', '1D-akima'],
         2: ['2D-slinear', '2D-lagrange2', '2D-lagrange3'],
         3: ['3D-slinear', '3D-lagrange2', '3D-lagrange3']}
BASE = {'slinear': 'slinear', 'lagrange2': 'lagrange2', 'lagrange3': 'lagrange3', 'akima': 'akima',
        'cubic': 'cubic'}
for _d, _l in FIXED.items():
    for _m in _l:
        BASE[_m] = _m.split('-')[1]
MINPTS = {'slinear': 2, 'lagrange2': 3, 'lagrange3': 4, 'akima': 4, 'cubic': 4}
DEGREE = {'slinear': 1, 'lagrange2': 2, 'lagrange3': 3, 'akima': 1, 'cubic': 1}
STEPS = [Fraction(1, 4), Fraction(1, 2), Fraction(3, 4), Fraction(1), Fraction(1), Fraction(3, 2),
         Fraction(2), Fraction(5, 2)]
FRACS = [Fraction(1, 2), Fraction(1, 4), Fraction(3, 4), Fraction(1, 8), Fraction(7, 8),
         Fraction(1, 16), Fraction(5, 8)]
MARGINS = [Fraction(1, 4), Fraction(1), Fraction(3)]
TOL = 1e-10
# The fixed-dimension lagrange tables evaluate cell polynomials in the power basis of the cell-local
# coordinate; on uneven grids that loses digits (measured worst case over 12 seeds: 1.4e-10 for
# 3D-lagrange3, 1.7e-9 seen once).  Tolerances relative to max(1, max|table|), recorded in the evidence.
TOLS = {'lagrange2': 1e-9, 'lagrange3': 1e-9, '1D-lagrange3': 1e-9, '2D-lagrange2': 1e-9,
        '2D-lagrange3': 1e-7, '3D-lagrange2': 1e-7, '3D-lagrange3': 1e-5}


def tol_of(method):
    return TOLS.get(method, TOL)


def is_fixed(method):
    return method[0] in '123'


def gen_grid(rng, npts, sign):
    steps = [rng.choice(STEPS) for _ in range(npts - 1)]
    g = [Fraction(0)]
    for s in steps:
        g.append(g[-1] + s)
    span = g[-1]
    if sign == 'pos':
        off = rng.choice([Fraction(1, 4), Fraction(1), Fraction(3)])
    elif sign == 'start0':
        off = Fraction(0)
    elif sign == 'end0':
        off = -span
    elif sign == 'neg':
        off = -span - rng.choice([Fraction(1, 4), Fraction(1), Fraction(2)])
    else:   # straddle: zero strictly inside, sometimes on a node
        k = rng.randrange(1, npts - 1) if npts > 2 else 0
        off = -g[k] if (npts > 2 and rng.random() < 0.5) else -(g[0] + g[1]) / 2 - g[rng.randrange(npts - 1)]
        if not (g[0] + off < 0 < g[-1] + off):
            off = -span / 2
    return [x + off for x in g]


def poly_eval(poly, pt):
    tot = Fraction(0)
    for c, exps in poly:
        t = unrat(c)
        for x, e in zip(pt, exps):
            t *= x ** e
        tot += t
    return tot


def node_iter(shape):
    if not shape:
        yield ()
        return
    for i in range(shape[0]):
        for rest in node_iter(shape[1:]):
            yield (i,) + rest


def probe_flags():
    """(abs_eps, akima_fix) of the tree under test, from two public-API probes."""
    from openmdao.components.interp_util.interp import InterpND
    g = np.array([-5., -4., -2., -1.])
    try:
        InterpND(method='slinear', points=g, values=2 * g).interpolate(np.array([[-1.0]]))
        abs_eps = True
    except Exception:
        abs_eps = False
    try:
        t = InterpND(method='akima', points=np.array([0., 1., 2., 4.]), values=np.array([1., 3., 2., 7.]))
        akima_fix = abs(float(np.asarray(t.interpolate(np.array([[1.5]]))).ravel()[0]) - 2.5) < 1e-9
    except Exception:
        akima_fix = False
    return abs_eps, akima_fix


class C15(Property):
    pid = 'C15'
    workers = 1
    tolerance = dict({'default_rel_to_table_max': TOL}, **TOLS)
    required_theorems = [
        'C15_bracket_spec', 'C15_bracketVec_spec', 'C15_node_exact', 'C15_node_exact_1d', 'C15_reproduce',
        'C15_reproduce_akima_1d', 'C15_reproduce_cubic_1d', 'C15_bounds_iff',
        'C15_bounds_iff_partial', 'C15_bounds_crash_counterexample', 'C15_eps_nonneg',
        'C15_fixed_eq_general_slinear', 'C15_fixed_eq_general_lagrange',
        'C15_fixed_eq_general_akima_partial', 'C15_fixed_akima_counterexample']
    rule = ("cases: method in {slinear, lagrange2, lagrange3, akima, cubic, 1D/2D/3D-slinear, "
            "1D/2D/3D-lagrange2, 1D/2D/3D-lagrange3, 1D-akima} x 1-3 strictly increasing dyadic grids of "
            "k..7 points (all positive / starting at 0 / all negative / ending exactly at 0 / straddling "
            "0) x table = random polynomial of the method's exactness degree or random dyadic values x "
            "extrapolate in {T,F} x consumer in {InterpND.interpolate, MetaModelStructuredComp} x a "
            "sequence of 1-3 query batches on the same object (1 point = non-vectorized path, several = "
            "vectorized path); points are nodes, cell interiors, boundaries, outside by >= 1/4. "
            "Non-trivial: at least one point is evaluated off-node inside the table or an error class is "
            "compared; distinct by canonical case encoding.")
    assumptions = [
        "grids, tables and query points are dyadic rationals; the Lean model evaluates the exact "
        "rational value of every double; values are compared to 1e-10 (power-basis fixed lagrange tables: up to 1e-5, see tolerance) relative to max(1, max|table|)",
        "query points are either inside [g0, g_last] exactly or outside by >= 1/4, so the 1e-14 "
        "tolerance band of the bounds check is never entered except exactly on the boundary",
    ]
    level = 'proof'
    level_text = (
        "Bracketing (exponential search + bisection from any start index; the vectorized searchsorted "
        "rule), the bounds pre-check, the slinear / lagrange2 / lagrange3 / akima / natural-cubic kernels, "
        "the recursion over table dimensions and the fixed-dimension coefficient formulas are modelled in "
        "Lean and the clauses are proved over every linearly ordered field: node exactness and reproduction "
        "of tensor-product polynomials of the method's degree for all five methods in any number of "
        "dimensions, on strictly increasing grids of any sign, for every admissible bracket index (hence "
        "every cached state) and at every point; error iff outside the tolerance band for the repaired "
        "tolerance and, for the tolerance as written, for grids ending at a non-negative coordinate (the "
        "KeyError on negative ones is a kernel-checked counterexample); fixed = general for slinear, "
        "lagrange2 and lagrange3 in 1-3 dimensions; tied to InterpND and MetaModelStructuredComp by "
        "differential runs with exact rationals.")
    level_note = (
        "Partial: 1D-akima vs akima is proved at the level of the five slopes (equal except on 4-point "
        "grids, counterexample kernel-checked) and tied differentially for the values; state corruption of "
        "the fixed tables between vectorized and single-point calls is outside the (stateless) model and "
        "found by the oracle only; IEEE rounding modelled, not verified (tolerance 1e-10, looser for the "
        "power-basis fixed lagrange tables); scipy_* methods out of scope (third party); "
        "MetaModelStructuredComp's Problem plumbing is tied only differentially.")
    technique = "Lean 4 proof over ordered fields + exact-rational differential correspondence"
    trusted_extra = ["NumPy array indexing/einsum used by the tables (modelled as explicit sums)"]

    # -- generation ------------------------------------------------------------------------------
    abs_eps = False
    akima_fix = False

    def translate(self):
        """Detect which variant of two known-defective spots the tree under test has, so that the
        model follows the code as it is (before and after the proposed `fix:` commits)."""
        self.abs_eps, self.akima_fix = probe_flags()
        return ['bounds tolerance variant: %s' % ('1e-14*|grid[-1]| (repaired)' if self.abs_eps
                                                  else '1e-14*grid[-1] (as pinned)'),
                'akima end conditions: %s' % ('independent blocks (repaired)' if self.akima_fix
                                              else 'elif chain (as pinned)')]

    def setup(self, tier):
        import openmdao.api  # noqa: F401  (import before any timing-sensitive work)

    def gen_case(self, rng, force=None):
        force = force or {}
        ndim = force.get('ndim') or rng.choice([1, 1, 2, 2, 3])
        if 'method' in force:
            method = force['method']
        elif rng.random() < 0.5:
            method = rng.choice(GENERAL)
        else:
            method = rng.choice(FIXED[ndim])
        base = BASE[method]
        kmin = MINPTS[base]
        hi = 7 if ndim < 3 else 5
        grids = []
        signs = []
        for _ in range(ndim):
            npts = force.get('npts') or rng.randint(kmin, max(kmin, hi))
            sign = force.get('sign') or rng.choice(['pos', 'pos', 'start0', 'neg', 'end0', 'straddle',
                                                    'straddle', 'straddle'])
            signs.append(sign)
            grids.append(gen_grid(rng, npts, sign))
        shape = [len(g) for g in grids]
        kind = force.get('table') or rng.choice(['poly', 'poly', 'random'])
        poly = None
        if kind == 'poly':
            deg = DEGREE[base]
            poly = []
            for _ in range(rng.randint(1, 4)):
                exps = [rng.randint(0, deg) for _ in range(ndim)]
                if rng.random() < 0.3:
                    exps = [deg] * ndim
                c = rng.choice([1, -1, 2, -2, 3, Fraction(1, 2), Fraction(-3, 2)])
                poly.append([rat(c), exps])
            vals = [float(poly_eval(poly, [grids[d][i] for d, i in enumerate(idx)]))
                    for idx in node_iter(shape)]
        else:
            vals = [rng.randint(-2000, 2000) / 64.0 for _ in node_iter(shape)]
        extrap = force['extrapolate'] if 'extrapolate' in force else rng.random() < 0.3
        api = force.get('api') or ('mmsc' if rng.random() < 0.25 else 'interpnd')
        nb = rng.choice([1, 1, 2, 3])
        if api == 'mmsc':
            size = rng.choice([1, 1, 2, 3])
            sizes = [size] * nb
        else:
            sizes = [rng.choice([1, 1, 2, 3, 4]) for _ in range(nb)]
            if is_fixed(method) and nb > 1 and not force.get('allow_vec_then_single') \
                    and rng.random() < 0.9:
                # most sequences avoid the (known) vectorized -> single-point state corruption
                sizes.sort()
        walk = force.get('walk')
        if walk:
            sizes = [1] * len(walk)
        batches = []
        for bi, sz in enumerate(sizes):
            mode = rng.choice(['in', 'in', 'in', 'in', 'in', 'node', 'edge', 'out'])
            pts = []
            if walk:
                # single-point calls on one interpolator object that visit the outside of the table
                # and the adjacent end cells (per-cell coefficient caches must not mix them up)
                pt = []
                for g in grids:
                    m = walk[bi]
                    if m == 'above':
                        pt.append(g[-1] + rng.choice(MARGINS))
                    elif m == 'below':
                        pt.append(g[0] - rng.choice(MARGINS))
                    elif m == 'last':
                        pt.append(g[-2] + rng.choice(FRACS) * (g[-1] - g[-2]))
                    elif m == 'first':
                        pt.append(g[0] + rng.choice(FRACS) * (g[1] - g[0]))
                    elif m == 'hi':
                        pt.append(g[-1])
                    elif m in ('far_up', 'far_down', 'node_up', 'node_down', 'mid'):
                        # interior cells / nodes far from the end just visited: the upper half after a
                        # lookup below the table, the lower half after one above it
                        n = len(g)
                        if m in ('far_up', 'node_up'):
                            i = rng.randrange(max(1, n // 2), n - 1)
                        elif m in ('far_down', 'node_down'):
                            i = rng.randrange(0, max(1, (n - 1) // 2))
                        else:
                            i = rng.randrange(n - 1)
                        if m.startswith('node'):
                            pt.append(g[i] if m == 'node_down' else g[min(i + 1, n - 2)])
                        else:
                            pt.append(g[i] + rng.choice(FRACS) * (g[i + 1] - g[i]))
                    else:
                        pt.append(g[0])
                batches.append([rats(pt)])
                continue
            for _ in range(sz):
                pt = []
                for g in grids:
                    m = mode if mode != 'in' else rng.choice(['interior'] * 7 + ['node', 'node', 'edge'])
                    if mode == 'out':
                        m = rng.choice(['interior', 'below', 'above', 'node'])
                    if m == 'node':
                        pt.append(rng.choice(g))
                    elif m == 'edge':
                        pt.append(rng.choice([g[0], g[-1]]))
                    elif m == 'below':
                        pt.append(g[0] - rng.choice(MARGINS))
                    elif m == 'above':
                        pt.append(g[-1] + rng.choice(MARGINS))
                    else:
                        i = rng.randrange(len(g) - 1)
                        pt.append(g[i] + rng.choice(FRACS) * (g[i + 1] - g[i]))
                pts.append(rats(pt))
            batches.append(pts)
        flat = (api == 'interpnd' and rng.random() < 0.2)
        return {'method': method, 'grids': [rats(g) for g in grids], 'values': rats(vals),
                'table': kind, 'poly': poly, 'extrapolate': extrap, 'api': api, 'batches': batches,
                'flat_x': flat, 'signs': signs}

    def cases(self, rng, tier):
        n = 700 if tier == 'quick' else 12000
        for _ in range(n):
            yield self.gen_case(rng)
        # targeted families: every method on grids ending below zero / at zero, boundaries queried
        m_all = GENERAL + FIXED[1] + FIXED[2] + FIXED[3]
        reps = 1 if tier == 'quick' else 6
        for _ in range(reps):
            for m in m_all:
                nd = int(m[0]) if is_fixed(m) else rng.choice([1, 2])
                for sign in ('neg', 'end0'):
                    yield self.gen_case(rng, {'method': m, 'ndim': nd, 'sign': sign})
            # 4-point akima tables (general vs fixed differ in the middle interval)
            for m in ('akima', '1D-akima'):
                yield self.gen_case(rng, {'method': m, 'ndim': 1, 'npts': 4, 'table': 'random'})
            # single-point walks across the table ends with extrapolation on (coefficient caches)
            for m in FIXED[1] + FIXED[2] + FIXED[3] + ['akima', 'cubic', 'slinear']:
                walk = ['above', 'last', 'hi', 'below', 'first', 'lo']
                rng.shuffle(walk)
                yield self.gen_case(rng, {'method': m, 'ndim': int(m[0]) if is_fixed(m) else 1,
                                          'api': 'interpnd', 'extrapolate': True, 'walk': walk,
                                          'table': 'random'})
            # single-point lookups outside the table followed immediately by a lookup in a far interior
            # cell / on a far node of the same object (the cached bracket index of the outside lookup
            # must not decide the next cell), every fixed method, both consumers
            for m in FIXED[1] + FIXED[2] + FIXED[3] + GENERAL:
                for api in ('interpnd', 'mmsc'):
                    if api == 'mmsc' and not (m in FIXED[1] or rng.random() < 0.3):
                        continue
                    walk = []
                    for _ in range(3):
                        walk += rng.choice([['below', 'far_up'], ['below', 'node_up'], ['above', 'far_down'],
                                            ['above', 'node_down'], ['below', 'mid'], ['above', 'mid']])
                    nd = int(m[0]) if is_fixed(m) else rng.choice([1, 2])
                    yield self.gen_case(rng, {'method': m, 'ndim': nd, 'npts': 7 if nd < 3 else 5,
                                              'api': api, 'extrapolate': True, 'walk': walk,
                                              'table': 'random', 'mmsc_size': 1})
            # vectorized call followed by a single-point call on a fixed-dimension table
            m = rng.choice(FIXED[1] + FIXED[2] + FIXED[3])
            yield self.gen_case(rng, {'method': m, 'ndim': int(m[0]), 'api': 'interpnd',
                                      'allow_vec_then_single': True})

    # -- real code -------------------------------------------------------------------------------
    @staticmethod
    def _arrays(case):
        grids = [np.array([float(unrat(x)) for x in g]) for g in case['grids']]
        shape = [len(g) for g in grids]
        vals = np.array([float(unrat(x)) for x in case['values']]).reshape(shape)
        return grids, vals

    def _run_interpnd(self, case, method):
        from openmdao.components.interp_util.interp import InterpND
        grids, vals = self._arrays(case)
        out = []
        try:
            t = InterpND(method=method, points=tuple(grids), values=vals,
                         extrapolate=case['extrapolate'])
        except Exception as e:
            return [{'err': 'ctor:' + type(e).__name__, 'msg': str(e)[:120]}]
        for pts in case['batches']:
            x = np.array([[float(unrat(c)) for c in p] for p in pts])
            if case.get('flat_x'):
                if len(grids) == 1:
                    x = x.ravel()           # 1-D array of separate points on a 1-D table
                elif len(pts) == 1:
                    x = x[0]                # one multi-D point as a 1-D array
            try:
                with warnings.catch_warnings():
                    warnings.simplefilter('ignore')
                    r = t.interpolate(x)
                out.append({'v': rats(np.asarray(r, dtype=float).ravel().tolist())})
            except Exception as e:
                out.append({'err': type(e).__name__, 'msg': str(e)[:120]})
        return out

    def _run_mmsc(self, case):
        import openmdao.api as om
        grids, vals = self._arrays(case)
        size = len(case['batches'][0])
        out = []
        try:
            with warnings.catch_warnings():
                warnings.simplefilter('ignore')
                comp = om.MetaModelStructuredComp(method=case['method'],
                                                  extrapolate=case['extrapolate'], vec_size=size)
                for d, g in enumerate(grids):
                    comp.add_input('x%d' % d, float(g[0]), training_data=g)
                comp.add_output('f', 1.0, training_data=vals)
                p = om.Problem()
                p.model.add_subsystem('c', comp, promotes=['*'])
                p.setup()
        except Exception as e:
            return [{'err': 'ctor:' + type(e).__name__, 'msg': str(e)[:120]}]
        for pts in case['batches']:
            try:
                with warnings.catch_warnings():
                    warnings.simplefilter('ignore')
                    for d in range(len(grids)):
                        p.set_val('x%d' % d, np.array([float(unrat(q[d])) for q in pts]))
                    p.run_model()
                    r = p.get_val('f')
                out.append({'v': rats(np.asarray(r, dtype=float).ravel().tolist())})
            except Exception as e:
                out.append({'err': type(e).__name__, 'msg': str(e)[:120]})
        return out

    def run_impl(self, case):
        if case['api'] == 'mmsc':
            res = {'b': self._run_mmsc(case)}
        else:
            res = {'b': self._run_interpnd(case, case['method'])}
        if is_fixed(case['method']):
            # the general table on the same input, fresh object (fixed-vs-general clause)
            res['gen'] = self._run_interpnd(dict(case, flat_x=False), BASE[case['method']])
        return res

    # -- exact facts about a case ------------------------------------------------------------------
    @staticmethod
    def facts(case):
        grids = [[unrat(x) for x in g] for g in case['grids']]
        shape = [len(g) for g in grids]
        vals = [unrat(x) for x in case['values']]
        scale = max([1] + [abs(float(v)) for v in vals])
        return grids, shape, vals, scale

    @staticmethod
    def classify(grids, pt):
        """('in'|'out', is_node, node multi-index, on_boundary, cell index per dim)."""
        inb = all(g[0] <= x <= g[-1] for g, x in zip(grids, pt))
        node = all(x in g for g, x in zip(grids, pt))
        idx = tuple(g.index(x) for g, x in zip(grids, pt)) if node else None
        bnd = any(x == g[0] or x == g[-1] for g, x in zip(grids, pt))
        return inb, node, idx, bnd

    def expected_value(self, case, grids, shape, vals, pt, node, idx):
        if node:
            flat = 0
            for n, i in zip(shape, idx):
                flat = flat * n + i
            return vals[flat]
        if case['poly'] is not None:
            return poly_eval(case['poly'], pt)
        return None

    OOB = {'interpnd': ('OutOfBoundsError',), 'mmsc': ('AnalysisError',)}

    def oracle(self, case, impl):
        grids, shape, vals, scale = self.facts(case)
        method = case['method']
        b = impl['b']
        if len(b) == 1 and str(b[0].get('err', '')).startswith('ctor:'):
            return {'what': 'constructor_error', 'err': b[0]['err'], 'msg': b[0].get('msg')}
        seen_vec = False
        for k, (pts, r) in enumerate(zip(case['batches'], b)):
            P = [[unrat(c) for c in p] for p in pts]
            cls = [self.classify(grids, p) for p in P]
            all_in = all(c[0] for c in cls)
            single = len(P) == 1
            ctx = {'method': method, 'batch': k, 'fixed': is_fixed(method), 'single': single,
                   'after_vectorized': seen_vec, 'api': case['api'],
                   'grid_end_negative': any(g[-1] < 0 for g in grids),
                   'grid_points_min': min(shape),
                   'on_boundary': any(c[3] for c in cls)}
            if len(P) > 1:
                seen_vec = True
            if 'err' in r:
                if all_in or case['extrapolate']:
                    return dict(ctx, what='inbounds_error', err=r['err'], msg=r.get('msg'),
                                points=pts)
                if r['err'] not in self.OOB[case['api']]:
                    return dict(ctx, what='wrong_error_class', err=r['err'], msg=r.get('msg'),
                                points=pts)
                continue
            if not all_in and not case['extrapolate']:
                return dict(ctx, what='missing_error', points=pts, got=r['v'])
            got = [float(unrat(x)) for x in r['v']]
            if len(got) != len(P):
                return dict(ctx, what='wrong_result_shape', got=r['v'])
            for p, c, y in zip(P, cls, got):
                if not c[0]:
                    continue
                exp = self.expected_value(case, grids, shape, vals, p, c[1], c[2])
                if exp is not None and not abs(y - float(exp)) <= tol_of(method) * scale:
                    return dict(ctx, what='node_value' if c[1] else 'reproduction',
                                point=rats(p), got=y, expected=float(exp))
            # fixed-dimension table against the general one
            if 'gen' in impl and k < len(impl['gen']) and 'v' in impl['gen'][k]:
                gv = [float(unrat(x)) for x in impl['gen'][k]['v']]
                for p, c, y, z in zip(P, cls, got, gv):
                    if c[0] and not abs(y - z) <= tol_of(method) * scale:
                        cell = [max(i for i, gx in enumerate(g) if gx <= x) for g, x in zip(grids, p)]
                        return dict(ctx, what='fixed_vs_general', point=rats(p), got=y, general=z,
                                    middle_interval=all(0 < ci < n - 2 for ci, n in zip(cell, shape)))
        return None

    def signature(self, case, impl, failure):
        keys = ('what', 'err', 'method', 'fixed', 'single', 'after_vectorized', 'api',
                'grid_end_negative', 'grid_points_min', 'on_boundary', 'middle_interval')
        return {k: failure[k] for k in keys if k in failure}

    def nontrivial(self, case, impl):
        grids, shape, vals, scale = self.facts(case)
        for pts in case['batches']:
            for p in pts:
                inb, node, _, _ = self.classify(grids, [unrat(c) for c in p])
                if (inb and not node) or not inb:
                    return True
        return False

    def bucket(self, case, impl):
        grids, shape, vals, scale = self.facts(case)
        out = ['method=' + case['method'], 'ndim=%d' % len(grids), 'table=' + case['table'],
               'api=' + case['api'], 'extrapolate=%s' % case['extrapolate']]
        out += ['sign=' + s for s in sorted(set(case.get('signs', [])))]
        out += ['npts=%d' % n for n in sorted(set(shape))]
        for pts, r in zip(case['batches'], impl['b']):
            out.append('batch=single' if len(pts) == 1 else 'batch=vectorized')
            out.append('outcome=' + (r['err'] if 'err' in r else 'ok'))
            for p in pts:
                inb, node, _, bnd = self.classify(grids, [unrat(c) for c in p])
                out.append('point=' + ('outside' if not inb else 'node' if node else
                                       'boundary' if bnd else 'interior'))
        return out

    # -- model -----------------------------------------------------------------------------------
    def model_requests(self, case, impl):
        reqs = []
        for pts in case['batches']:
            reqs.append({'op': 'interp', 'method': case['method'],
                         'vec': bool(is_fixed(case['method']) and len(pts) > 1),
                         'extrapolate': case['extrapolate'], 'absEps': bool(self.abs_eps),
                         'akimaFix': bool(self.akima_fix),
                         'grids': case['grids'], 'values': case['values'], 'pts': pts})
        return reqs

    def compare(self, case, impl, answers):
        grids, shape, vals, scale = self.facts(case)
        for k, (r, a) in enumerate(zip(impl['b'], answers)):
            if 'err' in r:
                want = {'oob': self.OOB[case['api']], 'crash': ('KeyError',)}.get(a['chk'], ())
                if a['chk'] == 'ok' and any(v is None for v in a.get('v', [])):
                    want = ('UnboundLocalError',)
                if r['err'] not in want:
                    return 'batch %d: implementation raised %s, model says %s' % (k, r['err'], a['chk'])
                continue
            if a['chk'] != 'ok':
                return 'batch %d: model says %s, implementation returned %s' % (k, a['chk'], r['v'])
            for y, m in zip(r['v'], a['v']):
                if m is None:
                    return 'batch %d: model crashes, implementation returned %s' % (k, y)
                if not abs(float(unrat(y)) - float(unrat(m))) <= tol_of(case['method']) * scale:
                    return 'batch %d: value %r vs model %r' % (k, float(unrat(y)), float(unrat(m)))
        return None


PROP = C15()
