"""C02 — forward and reverse linear operators are exact adjoints."""
import copy
import json
import random
import warnings
from fractions import Fraction

import numpy as np

import genmodel as gm
from common import Property, rat, unrat, Infra

RTOL = 1e-9


def _ivec(rng, n):
    return np.array([float(rng.randint(-4, 4)) for _ in range(n)])


class C02(Property):
    pid = 'C02'
    workers = 8
    tolerance = RTOL
    required_theorems = ['C02_transfer_adjoint', 'C02_transfer_assignment_not_adjoint',
                         'C02_subjac_adjoint', 'C02_solve_adjoint', 'C02_model_adjoint']
    rule = ("cases: random models from harness/genmodel.py (explicit, matrix-free, implicit components, "
            "nested groups, src_indices with repeated and negative entries, unit conversions, optional "
            "output scaling, optional converging cycle). Dot-product tests with integer seed vectors on "
            "the real objects: compute_jacvec_product fwd vs rev, run_apply_linear fwd vs rev on the "
            "model and on every group and component, the linear data transfers of every group, and "
            "run_solve_linear fwd vs rev under the configured linear solver. Non-trivial: the operator "
            "has an off-diagonal entry (some connection exists); distinct by (seed, configuration).")
    assumptions = ["identities compared at 1e-9 relative to the magnitude of the terms (1e-6 with "
                   "iterative linear solvers)"]
    trusted_extra = ["scipy/LAPACK inside the linear solvers (results only compared)"]
    level_text = ("The linear operators a user can drive are modelled as gathers/bincounts and triplet "
                  "lists; proved in Lean for all index maps (repeated entries included), all triplet "
                  "lists with duplicates and masks, and all solutions of a linear system and its "
                  "transpose: ⟨w, Op v⟩ = ⟨Opᵀ w, v⟩. The real operators of every generated model "
                  "(jacvec products, apply_linear of every system, transfers, solves under every linear "
                  "solver) are checked by dot-product tests, and ⟨w, A v⟩ is compared with the Lean "
                  "driver's value from the exact partial-derivative matrix.")
    level_note = ("full for the operators listed at the level of the model; k-sweep block Gauss-Seidel / "
                  "Jacobi and Krylov iterations are covered only through their converged solves; "
                  "OpenMDAO's own code paths are tied differentially.")
    technique = "Lean 4 proof (big-operator algebra, list induction) + dot-product tests on real operators"

    def cases(self, rng, tier):
        n = 40 if tier == 'quick' else 1200
        # family: responses that are multiples of one another + rhs_checking in sub-groups
        for _ in range(8 if tier == 'quick' else 150):
            yield {'gen_seed': rng.randrange(10 ** 9),
                   'opts': {'safe_indices': True, 'implicit': rng.random() < 0.3,
                            'scaling': rng.random() < 0.3, 'array_scaling': True,
                            'cycles': False, 'resp_chain': True, 'n_comps': (3, 6)},
                   'cfg': {'linear': rng.choice([None, 'runonce', 'lbgs', 'direct']), 'nonlinear': None,
                           'sub_linear': rng.choice(['direct', 'direct', 'krylov']),
                           'rhs_checking': rng.choice([True, True, {'check_zero': True}]),
                           'jac': None, 'partials': rng.choice([None, 'dense', 'sparse'])},
                   'vseed': rng.randrange(10 ** 6)}
        for _ in range(n):
            cyc = rng.random() < 0.3
            cfg = {'linear': rng.choice(['direct', 'direct_asm', 'krylov', 'lbgs']) if cyc
                   else rng.choice([None, 'runonce', 'direct', 'direct_asm', 'krylov', 'lbgs']),
                   'nonlinear': rng.choice(['nlbgs', 'newton']) if cyc else None,
                   'sub_linear': rng.choice([None, None, 'direct', 'krylov']),
                   'rhs_checking': rng.choice([None, True, True, {'check_zero': True}]),
                   'jac': rng.choice([None, 'dense', 'csc']),
                   'partials': rng.choice([None, None, 'dense', 'matfree', 'sparse'])}
            if cfg['linear'] == 'direct_asm' and cfg['jac'] is None:
                cfg['jac'] = 'csc'
            yield {'gen_seed': rng.randrange(10 ** 9),
                   'opts': {'safe_indices': rng.random() < 0.5, 'implicit': rng.random() < 0.4,
                            'scaling': rng.random() < 0.3, 'array_scaling': True,
                            'cycles': 'converging' if cyc else False,
                            'resp_chain': rng.random() < 0.5},
                   'cfg': cfg, 'vseed': rng.randrange(10 ** 6)}

    def _md(self, case):
        rng = random.Random(case['gen_seed'])
        md = gm.gen_md(rng, **case['opts'])
        voi = gm.gen_voi(rng, md, units=False, scaling=False)
        for v in voi['desvars'] + voi['responses']:
            v['indices'] = None        # jacvec seeds are whole variables
        return md, voi

    def run_impl(self, case):
        import openmdao.api as om
        md, voi = self._md(case)
        cfg = dict(case['cfg'])
        cfg['mode'] = 'rev'          # rev allocates everything needed for both directions
        rng = random.Random(case['vseed'])
        res = {'tests': []}
        try:
            with warnings.catch_warnings():
                warnings.simplefilter('ignore')
                v = copy.deepcopy(voi)
                p, info = gm.build_problem(md, cfg=cfg)
                gm.add_voi(p, md, v)
                p.setup(mode='rev', force_alloc_complex=True)
                gm.set_auto_ivc_values(p, md)
                p.run_model()
                model = p.model
                # 5. <w, A v> on the model in the harness's own flat layout, for the Lean comparison
                off, aoff, n = gm.flat_layout(md)
                vv = [rng.randint(-3, 3) for _ in range(n)]
                ww = [rng.randint(-3, 3) for _ in range(n)]
                with model._relevance.active(False):
                    model.run_linearize()
                model._doutputs.set_val(0.0); model._dinputs.set_val(0.0); model._dresiduals.set_val(0.0)
                names = {}
                for ci, c in enumerate(md['comps']):
                    for od in c['outs']:
                        names[gm.comp_path(c) + '.' + od['name']] = (off[(ci, od['name'])],
                                                                     int(np.prod(od['shape'])))
                for k, cn in enumerate(md['conns']):
                    if cn['src'] is None:
                        tgt = gm.comp_path(md['comps'][cn['tgt'][0]]) + '.' + cn['tgt'][1]
                        src = model._conn_global_abs_in2out[tgt]
                        names[src] = (aoff[k], len(cn['val']))
                for nm, (s0, sz) in names.items():
                    model._doutputs.set_var(nm, np.array(vv[s0:s0 + sz], dtype=float))
                # the whole operator, not only the part relevant to the declared design
                # variables / responses
                with model._relevance.active(False):
                    model.run_apply_linear('fwd')
                tot = 0.0
                for nm, (s0, sz) in names.items():
                    tot += float(np.dot(np.array(ww[s0:s0 + sz], dtype=float),
                                        np.asarray(model._dresiduals._abs_get_val(nm)).ravel()))
                res['wAv'] = tot
                res['vv'] = vv
                res['ww'] = ww
                model.run_linearize()
                nout = len(model._doutputs)
                nin = len(model._dinputs)

                def T(name, lhs, rhs, scale):
                    res['tests'].append({'name': name, 'lhs': float(lhs), 'rhs': float(rhs),
                                         'scale': float(scale)})
                # 1. jacvec products of the whole problem
                ofs = [r['name'] for r in v['responses']]
                wrts = [d['name'] for d in v['desvars']]
                dv = {n: _ivec(rng, int(np.prod(np.shape(p.get_val(n))))) for n in wrts}
                rw = {n: None for n in ofs}
                Jd = p.compute_totals(of=ofs, wrt=wrts, return_format='flat_dict')
                for o in ofs:
                    rw[o] = _ivec(rng, Jd[o, wrts[0]].shape[0])
                try:
                    jv = p.compute_jacvec_product(of=ofs, wrt=wrts, mode='fwd', seed=dv)
                    vj = p.compute_jacvec_product(of=ofs, wrt=wrts, mode='rev', seed=rw)
                    lhs = sum(float(np.dot(rw[o], np.asarray(jv[o]).ravel())) for o in ofs)
                    rhs = sum(float(np.dot(np.asarray(vj[w]).ravel(), dv[w])) for w in wrts)
                    sc = sum(float(np.abs(rw[o]) @ np.abs(Jd[o, w]) @ np.abs(dv[w]))
                             for o in ofs for w in wrts)
                    T('jacvec', lhs, rhs, sc)
                    # and against compute_totals
                    tot = sum(float(rw[o] @ Jd[o, w] @ dv[w]) for o in ofs for w in wrts)
                    T('jacvec_vs_totals', lhs, tot, sc)
                except Exception as e:
                    res['jacvec_error'] = type(e).__name__ + ': ' + str(e)[:200]
                # 2. apply_linear of the model, of every group and component
                systems = [model] + [s for s in model.system_iter(recurse=True, include_self=False)]
                for s in systems:
                    if s.pathname == '_auto_ivc':
                        continue
                    do, di, dr = s._doutputs, s._dinputs, s._dresiduals
                    vo, vi, wr = _ivec(rng, len(do)), _ivec(rng, len(di)), _ivec(rng, len(dr))
                    isgroup = isinstance(s, om.Group)
                    model._doutputs.set_val(0.0); model._dinputs.set_val(0.0); model._dresiduals.set_val(0.0)
                    do.set_val(vo); di.set_val(vi)
                    s.run_apply_linear('fwd')
                    r = dr.asarray().copy()
                    # inputs a group overwrites by its own transfers are internal, not arguments
                    di_after = di.asarray().copy()
                    model._doutputs.set_val(0.0); model._dinputs.set_val(0.0); model._dresiduals.set_val(0.0)
                    dr.set_val(wr)
                    s.run_apply_linear('rev')
                    ro, ri = do.asarray().copy(), di.asarray().copy()
                    if isgroup:
                        # inputs whose source lies inside the group are internal (overwritten by
                        # the group's own transfer), the others are arguments of the operator
                        ext = np.zeros(len(di), dtype=bool)
                        pos = 0
                        pre = s.pathname + '.' if s.pathname else ''
                        for nm, val in di._abs_item_iter():
                            src = model._conn_global_abs_in2out[nm]
                            ext[pos:pos + val.size] = not src.startswith(pre)
                            pos += val.size
                        vi_eff = np.where(ext, vi, 0.0)
                        # re-run fwd with internal inputs zeroed so that only external ones count
                        model._doutputs.set_val(0.0); model._dinputs.set_val(0.0); model._dresiduals.set_val(0.0)
                        do.set_val(vo); di.set_val(vi_eff)
                        s.run_apply_linear('fwd')
                        r = dr.asarray().copy()
                        rhs = float(ro @ vo + np.where(ext, ri, 0.0) @ vi_eff)
                    else:
                        rhs = float(ro @ vo + ri @ vi)
                    lhs = float(wr @ r)
                    sc = float(np.abs(wr) @ np.abs(r)) + 1.0
                    T('apply_linear:' + (s.pathname or '<model>') + (':group' if isgroup else ':comp'),
                      lhs, rhs, sc)
                # 3. linear transfers of every group
                for g in [model] + [s for s in model.system_iter(recurse=True, typ=om.Group)]:
                    if len(g._dinputs) == 0 or model._has_input_scaling:
                        # with unit conversions / solver scaling the raw transfer is only one half
                        # of the (scaled) operator; it is covered through apply_linear above
                        continue
                    vo, wi = _ivec(rng, len(g._doutputs)), _ivec(rng, len(g._dinputs))
                    model._doutputs.set_val(0.0); model._dinputs.set_val(0.0)
                    g._doutputs.set_val(vo)
                    g._transfer('linear', 'fwd')
                    ti = g._dinputs.asarray().copy()
                    model._doutputs.set_val(0.0); model._dinputs.set_val(0.0)
                    g._dinputs.set_val(wi)
                    g._transfer('linear', 'rev')
                    to = g._doutputs.asarray().copy()
                    T('transfer:' + (g.pathname or '<model>'), float(wi @ ti), float(to @ vo),
                      float(np.abs(wi) @ np.abs(ti)) + 1.0)
                # 4. solves fwd vs rev on the model
                try:
                    vr, wo = _ivec(rng, nout), _ivec(rng, nout)
                    model._doutputs.set_val(0.0); model._dresiduals.set_val(vr)
                    model.run_solve_linear('fwd')
                    x = model._doutputs.asarray().copy()
                    model._dresiduals.set_val(0.0); model._doutputs.set_val(wo)
                    model.run_solve_linear('rev')
                    y = model._dresiduals.asarray().copy()
                    T('solve_linear', float(wo @ x), float(y @ vr), float(np.abs(wo) @ np.abs(x)) + 1.0)
                    # the reverse solve is linear: multiples of an earlier right-hand side (what a
                    # LinearRHSChecker cache sees when one response is a multiple of another)
                    for k in (-2.5, -0.5, 3.0, -1.0):
                        model._dresiduals.set_val(0.0); model._doutputs.set_val(k * wo)
                        model.run_solve_linear('rev')
                        y2 = model._dresiduals.asarray().copy()
                        T('solve_linear_multiple', float((k * wo) @ x), float(y2 @ vr),
                          abs(k) * float(np.abs(wo) @ np.abs(x)) + 1.0)
                except Exception as e:
                    res['solve_error'] = type(e).__name__ + ': ' + str(e)[:200]
        except Exception as e:
            res['error'] = type(e).__name__
            res['msg'] = str(e)[:300]
        return res

    def _tol(self, case):
        cfg = case['cfg']
        if cfg['linear'] in ('krylov', 'lbgs') or cfg['nonlinear']:
            return 1e-6
        return RTOL

    def oracle(self, case, impl):
        if impl.get('error') == 'AnalysisError':
            return None
        if 'error' in impl:
            return {'what': 'setup/run raised %s' % impl['error'], 'msg': impl.get('msg')}
        tol = self._tol(case)
        # products through linear solves are accurate to cond x eps of the linearised system at best
        md0, _ = self._md(case)
        cond = gm.system_cond(md0, ('c02', case['gen_seed'], json.dumps(case['opts'], sort_keys=True)))
        if cond > 1e11:
            return None
        tol = max(tol, 1e-14 * cond)
        for t in impl['tests']:
            ttol = max(tol, 1e-7) if t['name'] in ('solve_linear', 'solve_linear_multiple', 'jacvec', 'jacvec_vs_totals') else RTOL
            if not abs(t['lhs'] - t['rhs']) <= ttol * max(1.0, t['scale']):
                return {'what': 'dot-product test fails: <w, Op v> != <Op^T w, v>',
                        'operator': t['name'].split(':')[0], 'test': t}
        return None

    def signature(self, case, impl, failure):
        t = failure.get('test') or {}
        return {'what': failure.get('what'), 'operator': failure.get('operator'),
                'linear': case['cfg']['linear'], 'sub_linear': case['cfg'].get('sub_linear'),
                # the forward product came back exactly zero while the reverse one did not
                'fwd_product_zero': bool(t.get('lhs') == 0.0 and t.get('rhs') not in (0.0, None))}

    def nontrivial(self, case, impl):
        return len(impl.get('tests', [])) > 3

    def bucket(self, case, impl):
        md, voi = self._md(case)
        cfg = case['cfg']
        b = ['solver_reported_failure' if impl.get('error') == 'AnalysisError' else
             'impl_error' if 'error' in impl else 'impl_ok',
             'cyclic' if md.get('cyclic') else 'acyclic']
        for k in ('linear', 'jac', 'partials'):
            b.append('%s=%s' % (k, cfg[k]))
        for t in impl.get('tests', []):
            b.append('test_' + t['name'].split(':')[0] + (':' + t['name'].split(':')[-1]
                                                          if t['name'].startswith('apply') else ''))
        for k in ('jacvec_error', 'solve_error'):
            if k in impl:
                b.append(k)
        return b

    # -- model -----------------------------------------------------------------------------------
    def model_requests(self, case, impl):
        md, voi = self._md(case)
        if 'error' in impl or any(c['kind'] == 'implicit' for c in md['comps']):
            return []
        A, off, n = gm._linearised(md)
        T = [[k, j, rat(A[k][j])] for k in range(n) for j in range(n) if A[k][j] != 0]
        reqs = [{'op': 'coo', 'nr': n, 'nc': n, 'T': T, 'v': [rat(x) for x in impl['vv']],
                 'w': [rat(x) for x in impl['ww']]}]
        # one transfer with repeated indices from the model's own connections
        for cn in md['conns']:
            if cn['src'] is not None and cn['chain']:
                sod = [o for o in md['comps'][cn['src'][0]]['outs'] if o['name'] == cn['src'][1]][0]
                pos, _ = gm.np_positions(sod['shape'], cn['chain'])
                ns = int(np.prod(sod['shape']))
                rng = random.Random(case['vseed'])
                reqs.append({'op': 'transfer', 'n': ns, 'idx': pos,
                             'v': [rat(rng.randint(-3, 3)) for _ in range(ns)],
                             'w': [rat(rng.randint(-3, 3)) for _ in range(len(pos))]})
                break
        return reqs

    def compare(self, case, impl, answers):
        if not answers:
            return None
        a = answers[0]
        if a['wAv'] != a['ATwv']:
            raise Infra('Lean: <w,Av> != <A^T w,v>')
        for t in answers[1:]:
            if t['lhs'] != t['rhs']:
                raise Infra('Lean: transfer adjoint identity fails')
        # OpenMDAO's explicit residual is f(x) - y (-1 on the diagonal): the opposite sign of the
        # harness's u - f(x) convention
        exp = -float(unrat(a['wAv']))
        got = impl['wAv']
        if not abs(got - exp) <= 1e-8 * max(1.0, abs(exp)):
            return '<w, A v> of the model: implementation %r, exact partial-derivative matrix %r' % (got, exp)
        return None


PROP = C02()
