"""C32 — feed-forward models are fully solved by one ordered pass."""
import random
import sys
import warnings

import numpy as np

import genmodel as gm
from common import Property, rat, unrat, Infra

RTOL = 1e-9


def children_graph(md):
    """Per group: declared child order and child-level data-flow edges (from md, independent of
    OpenMDAO)."""
    groups = {}

    def child_of(group, path):
        """name of the direct child of `group` that contains absolute path `path` (or None)."""
        pre = group + '.' if group else ''
        if not path.startswith(pre):
            return None
        return path[len(pre):].split('.')[0]
    allg = set([''])
    for c in md['comps']:
        g = c['group']
        while g:
            allg.add(g)
            g = g.rpartition('.')[0]
    for g in sorted(allg):
        declared = []
        for ci in md['add_order']:
            ch = child_of(g, gm.comp_path(md['comps'][ci]))
            if ch is not None and ch not in declared:
                declared.append(ch)
        edges = set()
        for cn in md['conns']:
            if cn['src'] is None:
                continue
            a = child_of(g, gm.comp_path(md['comps'][cn['src'][0]]))
            b = child_of(g, gm.comp_path(md['comps'][cn['tgt'][0]]))
            if a is not None and b is not None and a != b:
                edges.add((a, b))
        groups[g] = {'declared': declared, 'edges': sorted(edges)}
    return groups


def reach(nodes, edges):
    r = {a: {a} for a in nodes}
    changed = True
    while changed:
        changed = False
        for a, b in edges:
            for x in nodes:
                if a in r[x] and b not in r[x]:
                    r[x].add(b)
                    changed = True
    return r


class C32(Property):
    pid = 'C32'
    workers = 8
    tolerance = RTOL
    required_theorems = ['C32_order_valid', 'C32_cycle_order_kept', 'C32_autoOrder_perm',
                         'C32_out_of_order_detects', 'C32_no_reorder_when_valid',
                         'C32_one_pass_solves', 'C32_predecessors_first_topo']
    rule = ("cases: random models from harness/genmodel.py whose subsystems are added in a random "
            "order in every group, auto_order=True on every group; half of them with 1-2 feedback "
            "connections (cycles). Real setup + one run_model. Non-trivial: some group's declared "
            "order violates data flow (OpenMDAO reports out-of-order connections); distinct by seed.")
    assumptions = ["networkx strongly_connected_components returns a valid reverse-topological SCC "
                   "list: validated per group by the Lean isTopoSccList on the graph OpenMDAO built",
                   "outputs compared with the exact rational state to 1e-9 relative"]
    trusted_extra = ["networkx SCC computation (contract validated per case)",
                     "OpenMDAO's system graph construction (compared with the harness's own graph)"]
    level_text = ("The ordering logic (out-of-order detection, SCC-list based auto order, cycle-internal "
                  "order) and the run-once sweep are modelled in Lean; proved for every graph, every "
                  "valid SCC list and every declared order: cross-SCC sources precede targets, cycles "
                  "keep their order, the new order is a permutation, the report is exact, and one pass "
                  "in a data-flow order zeroes every explicit residual. The real Group._check_order is "
                  "tied by feeding the graph, orders and networkx SCCs it used to the Lean driver and "
                  "comparing report and final order, plus an independent oracle on execution traces and "
                  "exact outputs.")
    level_note = ("Given the networkx contract (validated per case). OpenMDAO's graph construction and "
                  "the actual execution are tied differentially; floats by tolerance 1e-9.")
    technique = "Lean 4 proof (list induction) + translation validation of SCC lists + differential runs"

    def cases(self, rng, tier):
        n = 60 if tier == "quick" else 2000
        for k in range(n):
            yield {'gen_seed': rng.randrange(10 ** 9),
                   'opts': {'safe_indices': True, 'shuffle_order': True, 'cycles': k % 2 == 0,
                            'chains': rng.random() < 0.5, 'auto_ivc': rng.random() < 0.6,
                            # auto_order on a random subset of the groups (the others are declared in
                            # data-flow order)
                            'partial_auto_order': (k % 2 == 1) and rng.random() < 0.6},
                   # a second Problem.setup() must order the model again from the declared order
                   'resetup': rng.random() < 0.4}

    def _md(self, case):
        return gm.gen_md(random.Random(case['gen_seed']), **case['opts'])

    def run_impl(self, case):
        import openmdao.core.group as G
        md = self._md(case)
        rec = []
        orig = G.get_out_of_order_nodes

        def wrap(graph, orders):
            r = orig(graph, orders)
            try:
                path = sys._getframe(1).f_locals['self'].pathname
            except Exception:
                path = None
            rec.append({'group': path, 'nodes': sorted(graph.nodes()),
                        'edges': sorted([list(e) for e in graph.edges()]),
                        'orders': dict(orders), 'sccs': [sorted(s) for s in r[0]],
                        'out_of_order': sorted([list(e) for e in r[1]])})
            return r
        res = {}
        G.get_out_of_order_nodes = wrap
        try:
            with warnings.catch_warnings():
                warnings.simplefilter('ignore')
                log = []
                p, info = gm.build_problem(md, log=log, cfg={'auto_order': True})
                p.setup()
                gm.set_auto_ivc_values(p, md)
                p.run_model()
                if case.get('resetup'):
                    rec0, log0 = list(rec), list(log)
                    del rec[:]
                    del log[:]
                    try:
                        p.setup()
                        gm.set_auto_ivc_values(p, md)
                        p.run_model()
                    except RuntimeError as e:
                        # seen on the unchanged tree: a second setup() of a model whose promotes()
                        # carry multi-dimensional src_indices can be rejected ("Can't promote ... shape
                        # ... is incompatible").  A loud setup error, not an ordering matter: fall back
                        # to the first pass and count it.
                        res['resetup_error'] = str(e)[:200]
                        rec[:] = rec0
                        log[:] = log0
                        p, info = gm.build_problem(md, log=log, cfg={'auto_order': True})
                        del rec[:]
                        del log[:]
                        p.setup()
                        gm.set_auto_ivc_values(p, md)
                        p.run_model()
                res['rec'] = rec
                res['exec'] = [l[0] for l in log]
                res['final_order'] = {path: list(g._subsystems_allprocs)
                                      for path, g in info['groups'].items()}
                p.model.run_apply_nonlinear()
                res['max_resid'] = float(np.max(np.abs(p.model._residuals.asarray()))) \
                    if len(p.model._residuals.asarray()) else 0.0
                outs = {}
                for c in md['comps']:
                    for od in c['outs']:
                        nm = gm.comp_path(c) + '.' + od['name']
                        outs[nm] = np.asarray(p.get_val(nm)).ravel().tolist()
                res['outs'] = outs
        except Exception as e:
            res['error'] = type(e).__name__
            res['msg'] = str(e)[:300]
        finally:
            G.get_out_of_order_nodes = orig
        return res

    def oracle(self, case, impl):
        md = self._md(case)
        if 'error' in impl:
            return {'what': 'setup/run_model raised %s' % impl['error'], 'msg': impl.get('msg')}
        cg = children_graph(md)
        for g, info in cg.items():
            final = [x for x in impl['final_order'].get(g, []) if x != '_auto_ivc']
            nodes = info['declared']
            if sorted(final) != sorted(nodes):
                return {'what': 'final subsystem list is not a permutation of the declared one',
                        'group': g, 'final': final, 'declared': nodes}
            r = reach(nodes, info['edges'])
            pos = {x: i for i, x in enumerate(final)}
            dpos = {x: i for i, x in enumerate(nodes)}
            direct = set(info['edges'])
            for a in nodes:
                for b in nodes:
                    if a == b:
                        continue
                    ab, ba = b in r[a], a in r[b]
                    # a direct connection between different cycles/SCCs must go forward (for an
                    # acyclic graph this is the full "after all data predecessors" condition)
                    if (a, b) in direct and not ba and pos[a] > pos[b]:
                        return {'what': 'data predecessor ordered after its successor',
                                'group': g, 'pred': a, 'succ': b, 'final': final}
                    if ab and ba and (pos[a] < pos[b]) != (dpos[a] < dpos[b]):
                        return {'what': 'relative order inside a cycle changed', 'group': g,
                                'a': a, 'b': b, 'final': final, 'declared': nodes}
        if not md['cyclic']:
            # each explicit component executed exactly once, after its data predecessors
            ex = impl['exec']
            paths = [gm.comp_path(c) for c in md['comps'] if c['kind'] == 'explicit']
            if sorted(ex) != sorted(paths):
                return {'what': 'execution trace is not one evaluation per component', 'exec': ex}
            epos = {x: i for i, x in enumerate(ex)}
            for cn in md['conns']:
                if cn['src'] is None:
                    continue
                s = md['comps'][cn['src'][0]]
                t = md['comps'][cn['tgt'][0]]
                if s['kind'] == 'explicit' and epos[gm.comp_path(s)] > epos[gm.comp_path(t)]:
                    return {'what': 'component executed before its data predecessor',
                            'pred': gm.comp_path(s), 'succ': gm.comp_path(t), 'exec': ex}
            outs, ins = gm.exact_state(md)
            scale = 1.0
            # rounding of a polynomial evaluated in doubles is relative to the largest value that
            # enters it, not to the (possibly cancelling) result: per variable, the tolerance is
            # relative to the largest magnitude anywhere in the exact state
            big = max([1.0] + [abs(float(b)) for v in outs.values() for b in v])
            for k, v in outs.items():
                got = impl['outs'][k]
                for a, b in zip(got, v):
                    b = float(b)
                    scale = max(scale, abs(b))
                    if abs(a - b) > RTOL * max(1.0, abs(b)) and abs(a - b) > 1e-13 * big:
                        return {'what': 'output after one run_model differs from the exact solution',
                                'var': k, 'got': got, 'expected': [float(x) for x in v]}
            if impl['max_resid'] > RTOL * scale:
                return {'what': 'nonzero residual after one run_model of an acyclic model',
                        'max_resid': impl['max_resid']}
        return None

    def signature(self, case, impl, failure):
        return {'what': failure.get('what'), 'error': impl.get('error')}

    def nontrivial(self, case, impl):
        return any(r['out_of_order'] for r in impl.get('rec', []))

    def bucket(self, case, impl):
        md = self._md(case)
        b = ['cyclic' if md['cyclic'] else 'acyclic', 'impl_error' if 'error' in impl else 'impl_ok',
             'second_setup_rejected' if impl.get('resetup_error') else
             'second_setup' if case.get('resetup') else 'single_setup']
        for r in impl.get('rec', []):
            b.append('group_reordered' if r['out_of_order'] else 'group_in_order')
            if any(len(s) > 1 for s in r['sccs']):
                b.append('group_with_cycle')
        return b

    # -- model -----------------------------------------------------------------------------------
    def model_requests(self, case, impl):
        if 'error' in impl:
            return []
        reqs = []
        for r in impl['rec']:
            idx = {n: i for i, n in enumerate(r['nodes'])}
            declared = sorted(r['nodes'], key=lambda n: r['orders'][n])
            reqs.append({'op': 'order', 'nodes': list(range(len(r['nodes']))),
                         'edges': [[idx[a], idx[b]] for a, b in r['edges']],
                         'sccs': [[idx[x] for x in s] for s in r['sccs']],
                         'orders': [r['orders'][n] for n in r['nodes']],
                         'declared': [idx[n] for n in declared]})
        md = self._md(case)
        if not md['cyclic']:
            spec = gm.flat_spec(md)
            # sweep in the order the real model executed
            by_path = {c['path']: c for c in spec['comps']}
            comps = [by_path[p] for p in impl['exec'] if p in by_path]
            reqs.append({'op': 'sweep', 'n': spec['n'], 'u0': spec['u0'],
                         'comps': [{'start': c['start'], 'len': c['len'], 'ins': c['ins'],
                                    'polys': c['polys']} for c in comps]})
        return reqs

    def compare(self, case, impl, answers):
        md = self._md(case)
        recs = impl['rec']
        seen_groups = set()
        for r, a in zip(recs, answers):
            if not a['valid']:
                raise Infra('networkx SCC list rejected by isTopoSccList: %s' % r)
            names = r['nodes']
            moo = sorted([[names[e[0]], names[e[1]]] for e in a['out_of_order']])
            if moo != r['out_of_order']:
                return 'out-of-order report differs in group %r: implementation %s, model %s' % (
                    r['group'], r['out_of_order'], moo)
            final = impl['final_order'].get(r['group'])
            if final is not None and r['group'] not in seen_groups:
                mfinal = [names[i] for i in a['final']]
                if mfinal != final:
                    return 'final order of group %r: implementation %s, model %s' % (
                        r['group'], final, mfinal)
            seen_groups.add(r['group'])
        expect = set(impl['final_order'])
        if 'auto_order_groups' in md:
            expect &= set(md['auto_order_groups'])      # only auto_order groups reorder themselves
        if expect - seen_groups:
            return 'Group._check_order did not consult get_out_of_order_nodes for groups %s' % (
                sorted(expect - seen_groups))
        if not md['cyclic']:
            a = answers[len(recs)]
            if not all(a['solved']):
                return 'model sweep in the executed order leaves an unsolved component: %s' % a['solved']
            spec = gm.flat_spec(md)
            off, aoff, n = gm.flat_layout(md)
            u = [float(unrat(x)) for x in a['u']]
            big = max([1.0] + [abs(x) for x in u])      # see the oracle: rounding is relative to this
            for ci, c in enumerate(md['comps']):
                for od in c['outs']:
                    s = off[(ci, od['name'])]
                    got = impl['outs'][gm.comp_path(c) + '.' + od['name']]
                    for k, g in enumerate(got):
                        if abs(g - u[s + k]) > RTOL * max(1.0, abs(u[s + k])) and \
                                abs(g - u[s + k]) > 1e-13 * big:
                            return 'output %s: implementation %s, model %s' % (
                                od['name'], got, u[s:s + len(got)])
        return None


PROP = C32()
