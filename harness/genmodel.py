"""
Random OpenMDAO model generator with an exact rational oracle (DESIGN.md section 3.6).

A model description `md` (plain JSON-able dict) is generated from one PRNG; from it we build
  * a real `om.Problem` (nested groups, promotions/connect with `src_indices` chains, units, scaling),
  * the exact converged state in `fractions.Fraction` arithmetic (independent of OpenMDAO),
  * the flat `spec` sent to the Lean drivers (ModelSpec wire format).

Indexing semantics in the oracle are *NumPy's own* (np.arange(...).reshape(shape)[idx]); unit
factors in the oracle come from the small table UNITS below (independent of openmdao.utils.units).
"""
import json
from fractions import Fraction

import numpy as np

from common import rat, unrat

F = Fraction

# unit name -> (dimension tag, factor to the base unit, offset): value_base = (value + offset)*factor
UNITS = {
    'm': ('L', F(1), F(0)), 'cm': ('L', F(1, 100), F(0)), 'mm': ('L', F(1, 1000), F(0)),
    'km': ('L', F(1000), F(0)), 'inch': ('L', F(254, 10000), F(0)), 'ft': ('L', F(3048, 10000), F(0)),
    's': ('T', F(1), F(0)), 'ms': ('T', F(1, 1000), F(0)), 'min': ('T', F(60), F(0)),
    'h': ('T', F(3600), F(0)),
    'kg': ('M', F(1), F(0)), 'g': ('M', F(1, 1000), F(0)),
    'N': ('F', F(1), F(0)), 'kN': ('F', F(1000), F(0)),
    'degK': ('K', F(1), F(0)), 'degC': ('K', F(1), F(27315, 100)),
}


class DualF:
    """Dual numbers over Fractions: exact forward-mode derivative propagation for the oracle."""
    __slots__ = ('re', 'du')

    def __init__(self, re, du=0):
        self.re = F(re)
        self.du = F(du)

    @staticmethod
    def lift(x):
        return x if isinstance(x, DualF) else DualF(x)

    def __add__(self, o):
        o = DualF.lift(o)
        return DualF(self.re + o.re, self.du + o.du)
    __radd__ = __add__

    def __neg__(self):
        return DualF(-self.re, -self.du)

    def __sub__(self, o):
        return self + (-DualF.lift(o))

    def __rsub__(self, o):
        return DualF.lift(o) + (-self)

    def __mul__(self, o):
        o = DualF.lift(o)
        return DualF(self.re * o.re, self.du * o.re + self.re * o.du)
    __rmul__ = __mul__

    def __pow__(self, k):
        r = DualF(1)
        for _ in range(int(k)):
            r = r * self
        return r


def _val(v):
    return v if isinstance(v, (DualF, Fraction)) else unrat(v)


def unit_conv(src_units, tgt_units):
    """(factor, offset) with  tgt_value = (src_value + offset) * factor  (exact)."""
    if src_units is None or tgt_units is None or src_units == tgt_units:
        return F(1), F(0)
    ds, fs, os_ = UNITS[src_units]
    dt, ft, ot = UNITS[tgt_units]
    assert ds == dt
    # base = (v_s + os)*fs ; v_t = base/ft - ot = (v_s + os - ot*ft/fs) * fs/ft
    return fs / ft, os_ - ot * ft / fs


def compatible_units(rng, u):
    if u is None:
        return None
    d = UNITS[u][0]
    return rng.choice([k for k, v in UNITS.items() if v[0] == d])


# ------------------------------------------------------------------------------------------------
# index specs

def spec_to_py(spec):
    t = spec['t']
    if t == 'int':
        return int(spec['v'])
    if t == 'slice':
        return slice(*spec['v'])
    if t == 'arr':
        return np.array(spec['v'], dtype=int)
    if t == 'list':
        return list(spec['v'])
    if t == 'ell':
        return Ellipsis
    if t == 'tup':
        return tuple(spec_to_py(s) for s in spec['v'])
    raise ValueError(t)


def _rand_axis_index(rng, n, allow_arr=True, allow_int=True):
    """Random valid index for one axis of extent n (>=1)."""
    kinds = ['slice', 'slice', 'full']
    if allow_int:
        kinds.append('int')
    if allow_arr:
        kinds.append('arr')
    if allow_arr and n > 1:
        kinds.append('samesize')
    k = rng.choice(kinds)
    if k == 'full':
        return {'t': 'slice', 'v': [None, None, None]}
    if k == 'samesize':
        # as many entries as the axis has, but not the identity: reversed, permuted or with repeats
        r = rng.random()
        if r < 0.3:
            return {'t': 'slice', 'v': [None, None, -1]}
        if r < 0.7:
            v = list(range(n))
            rng.shuffle(v)
            return {'t': 'arr', 'v': v}
        return {'t': 'arr', 'v': sorted(rng.randrange(n) for _ in range(n))}
    if k == 'int':
        return {'t': 'int', 'v': rng.randrange(-n, n)}
    if k == 'arr':
        m = rng.randint(1, 3)
        return {'t': 'arr', 'v': [rng.randrange(-n, n) for _ in range(m)]}
    # slice, in-bounds start/stop (OpenMDAO rejects out-of-range slice ends)
    for _ in range(20):
        step = rng.choice([None, 1, 1, 2, -1, -2])
        start = rng.choice([None] + list(range(-n, n)))
        stop = rng.choice([None] + list(range(-n, n + 1)))
        if len(range(n)[slice(start, stop, step)]) > 0:
            return {'t': 'slice', 'v': [start, stop, step]}
    return {'t': 'slice', 'v': [None, None, None]}


def _has_negstep_open_start(spec):
    specs = spec['v'] if spec['t'] == 'tup' else [spec]
    for sp in specs:
        if sp['t'] == 'slice':
            a, b, c = sp['v']
            if c is not None and c < 0 and a is None and b is not None:
                return True
    return False


def rand_index(rng, shape, flat, safe=False):
    while True:
        s = _rand_index(rng, shape, flat, safe)
        if not (safe and _has_negstep_open_start(s)):
            return s


def _rand_index(rng, shape, flat, safe=False):
    """Random index spec valid for a source of `shape`; returns spec. `safe` avoids the forms with
    known indexer defects (non-tuple int / 1-D array into a rank>=2 non-flat source)."""
    if flat or len(shape) == 1:
        n = int(np.prod(shape))
        s = _rand_axis_index(rng, n)
        if flat and len(shape) > 1 and s['t'] == 'slice' and s['v'][0] is None and s['v'][1] is None \
                and s['v'][2] in (None, 1):
            # a full flat slice of a multi-dimensional source is treated as "no indices" by
            # OpenMDAO and then rejected for the shape mismatch; not generated
            s = {'t': 'slice', 'v': [0, n, 1]} if n > 1 else {'t': 'int', 'v': 0}
        if s['t'] == 'arr' and rng.random() < 0.3:
            s = {'t': 'list', 'v': s['v']}
        if not flat and len(shape) == 1 and rng.random() < 0.15:
            s = {'t': 'tup', 'v': [s]}
        return s
    # multi-dimensional, non-flat: a tuple, possibly shorter with an ellipsis
    r = rng.random()
    if r < 0.15 and not safe:
        # non-tuple forms on a rank>=2 source
        return _rand_axis_index(rng, shape[0])
    axes = []
    n_arr = 0
    for n in shape:
        a = _rand_axis_index(rng, n, allow_arr=(n_arr == 0))
        if a['t'] == 'arr':
            n_arr += 1
        axes.append(a)
    if rng.random() < 0.25:
        # replace a run of full slices at the end or start by an ellipsis
        if axes[-1]['t'] == 'slice' and axes[-1]['v'] == [None, None, None]:
            axes = axes[:-1] + [{'t': 'ell'}]
        elif axes[0]['t'] == 'slice' and axes[0]['v'] == [None, None, None]:
            axes = [{'t': 'ell'}] + axes[1:]
    return {'t': 'tup', 'v': axes}


def np_positions(shape, chain):
    """Flat source positions selected by the chain (NumPy semantics) and the final shape."""
    a = np.arange(int(np.prod(shape)), dtype=int).reshape(shape)
    for lev in chain:
        if lev['spec'] is None:
            continue
        src = a.ravel() if lev['flat'] else a
        a = np.asarray(src[spec_to_py(lev['spec'])])
    return a.ravel().tolist(), list(a.shape)


# ------------------------------------------------------------------------------------------------
# polynomial maps

def rand_coef(rng):
    return F(rng.choice([-8, -6, -4, -3, -2, -1, 1, 2, 3, 4, 6, 8]), rng.choice([1, 1, 2, 4]))


def rand_poly(rng, in_elems, max_deg=2, max_terms=3):
    """Polynomial as list of terms {'c': rat, 'mon': [[elem_index, exp], ...]} over input elements
    (elem_index indexes `in_elems`)."""
    terms = []
    if rng.random() < 0.5:
        terms.append({'c': rat(rand_coef(rng)), 'mon': []})
    nt = rng.randint(1, max_terms)
    for _ in range(nt):
        if not in_elems:
            break
        deg = rng.choice([1, 1, 1, 2, 2, 3][:2 + 2 * max_deg - 2]) if max_deg > 1 else 1
        deg = min(deg, max_deg)
        mon = {}
        for _ in range(deg):
            e = rng.randrange(len(in_elems))
            mon[e] = mon.get(e, 0) + 1
        terms.append({'c': rat(rand_coef(rng)), 'mon': sorted([k, v] for k, v in mon.items())})
    return terms


def poly_eval(terms, xs):
    tot = F(0)
    for t in terms:
        v = unrat(t['c'])
        for e, p in t['mon']:
            v = v * xs[e] ** p
        tot = tot + v
    return tot


def poly_eval_float(terms, xs):
    tot = 0.0
    for t in terms:
        v = float(unrat(t['c']))
        for e, p in t['mon']:
            v = v * xs[e] ** p
        tot = tot + v
    return tot


def poly_grad_float(terms, xs, n):
    g = np.zeros(n, dtype=xs.dtype if hasattr(xs, 'dtype') else float)
    for t in terms:
        c = float(unrat(t['c']))
        for i, (e, p) in enumerate(t['mon']):
            v = c * p * xs[e] ** (p - 1)
            for j, (e2, p2) in enumerate(t['mon']):
                if j != i:
                    v = v * xs[e2] ** p2
            g[e] += v
    return g


# ------------------------------------------------------------------------------------------------
# model description

DEFAULT_OPTS = dict(
    n_comps=(2, 5), max_rank=2, max_extent=3, units=True, chains=True, max_deg=2,
    scaling=False, safe_indices=False, cycles=False, auto_ivc=True, shuffle_order=False,
    implicit=False, array_scaling=False, resp_chain=False, prefix_names=False, dyn_sibling=False,
    auto_ivc_p=0.15, solver_options_api=False, partial_auto_order=False, scalar0d=False,
    shared_promotes=False,
)


def _rand_shape(rng, max_rank, max_extent):
    r = rng.randint(1, max_rank)
    return [rng.randint(1 if r > 1 else 1, max_extent) for _ in range(r)]


def gen_md(rng, **kw):
    """Generate a random acyclic model description."""
    o = dict(DEFAULT_OPTS)
    o.update(kw)
    if o['cycles'] == 'converging':
        o['max_deg'] = 1
    # Groups are contiguous runs in creation order, so that the tree's execution order equals the
    # (topological) creation order of the components.
    groups = ['']
    walk = {'cur': '', 'n': 0}

    def next_group():
        cur = walk['cur']
        r = rng.random()
        depth = cur.count('.') + 1 if cur else 0
        if r < 0.35 and depth < 2:
            walk['n'] += 1
            cur = (cur + '.' if cur else '') + 'g%d' % walk['n']
            groups.append(cur)
        elif r < 0.6 and cur:
            cur = cur.rpartition('.')[0]
        walk['cur'] = cur
        return cur
    comps = []
    outs = []    # (comp_index, out dict)
    # independent variable components
    n_ivc = rng.randint(1, 2)
    for k in range(n_ivc):
        c = {'name': 'iv%d' % k, 'group': next_group() if rng.random() < 0.3 else walk['cur'],
             'kind': 'ivc', 'ins': [], 'outs': [], 'promote_outs': rng.random() < 0.5}
        for j in range(rng.randint(1, 2)):
            shape = _rand_shape(rng, o['max_rank'] + (1 if rng.random() < 0.2 else 0), o['max_extent'])
            if o['scalar0d'] and rng.random() < 0.35:
                shape = []          # a 0-d (shape=()) independent variable
            size = int(np.prod(shape))
            units = rng.choice([None, 'm', 'cm', 's', 'kg', 'degC', 'ft']) if o['units'] else None
            od = {'name': 'x%d%d' % (k, j), 'shape': shape, 'units': units,
                  'val': [rat(F(rng.randint(-16, 16), rng.choice([1, 2, 4]))) for _ in range(size)]}
            c['outs'].append(od)
            outs.append((len(comps), od))
        comps.append(c)
    n_comps = rng.randint(*o['n_comps'])
    conns = []
    for k in range(n_comps):
        c = {'name': 'c%d' % k, 'group': next_group(), 'kind': 'explicit', 'ins': [],
             'outs': [], 'promote_outs': rng.random() < 0.5,
             'partials': rng.choice(['dense', 'sparse', 'cs', 'matfree'])}
        ci = len(comps)
        n_in = rng.randint(1, 3)
        in_elems = []      # (input index, flat elem)
        for j in range(n_in):
            iname = 'a%d' % j
            # pick a source among existing outputs (acyclic by construction) or leave unconnected
            if o['auto_ivc'] and rng.random() < o['auto_ivc_p']:
                shape = _rand_shape(rng, o['max_rank'], o['max_extent'])
                units = rng.choice([None, 'm', 's']) if o['units'] else None
                size = int(np.prod(shape))
                c['ins'].append({'name': iname, 'shape': shape, 'units': units})
                conns.append({'tgt': [ci, iname], 'src': None, 'chain': [], 'style': 'auto_ivc',
                              'val': [rat(F(rng.randint(-16, 16), rng.choice([1, 2, 4])))
                                      for _ in range(size)]})
            elif o['shared_promotes'] and j > 0 and conns and conns[-1]['tgt'][0] == ci and \
                    conns[-1]['src'] is not None and 'share' not in conns[-1] and rng.random() < 0.5:
                # this input and the previous one are promoted by ONE promotes() call with one
                # src_indices object, but read sources of different size: a flat index with negative
                # entries valid for both
                prev = conns[-1]
                psod = [x for x in c['ins'] if x['name'] == prev['tgt'][1]]
                psrc = [od_ for (ci_, od_) in outs if ci_ == prev['src'][0] and od_['name'] == prev['src'][1]][0]
                sci, sod = rng.choice(outs)
                m = min(int(np.prod(psrc['shape'])), int(np.prod(sod['shape'])))
                # index arrays only: a slice shared between sources of different size is rejected by
                # OpenMDAO at setup (the shared Indexer keeps the first source's shape)
                spec = {'t': 'arr', 'v': [rng.randrange(-m, m) for _ in range(rng.randint(1, 3))]} \
                    if m >= 1 else None
                if spec is None or len(psrc['shape']) == 0 or len(sod['shape']) == 0:
                    spec = {'t': 'slice', 'v': [None, None, None]}
                chain = [{'spec': spec, 'flat': True}]
                ok = True
                try:
                    ppos, pshape = np_positions(psrc['shape'], chain)
                    pos, fshape = np_positions(sod['shape'], chain)
                    ok = len(ppos) > 0 and len(pos) > 0 and not (
                        spec['t'] == 'slice' and spec['v'][0] is None and spec['v'][1] is None
                        and spec['v'][2] in (None, 1))
                except Exception:
                    ok = False
                if ok and len(psrc['shape']) > 0 and len(sod['shape']) > 0:
                    if len(pshape) == 0:
                        pshape = [1]
                    if len(fshape) == 0:
                        fshape = [1]
                    gid = len(conns)
                    prev['chain'] = [dict(chain[0])]
                    prev['share'] = gid
                    psod[0]['shape'] = pshape
                    # the previous input changed size: rebuild its element list
                    pj = int(prev['tgt'][1][1:])
                    in_elems[:] = [(jj, e) for (jj, e) in in_elems if jj != pj] + \
                        [(pj, e) for e in range(int(np.prod(pshape)))]
                    in_elems.sort()
                    units = sod['units']
                    c['ins'].append({'name': iname, 'shape': fshape, 'units': units})
                    conns.append({'tgt': [ci, iname], 'src': [sci, sod['name']], 'chain': chain,
                                  'style': None, 'share': gid})
                else:
                    shape = list(sod['shape'])
                    pos, fshape = np_positions(sod['shape'], [])
                    if len(fshape) == 0:
                        fshape = [1]
                    c['ins'].append({'name': iname, 'shape': fshape, 'units': sod['units']})
                    conns.append({'tgt': [ci, iname], 'src': [sci, sod['name']], 'chain': [],
                                  'style': None})
            else:
                sci, sod = rng.choice(outs)
                nlev = 1 if not o['chains'] else rng.choice([0, 1, 1, 1, 2, 2, 3])
                nlev = min(nlev, c['group'].count('.') + (2 if c['group'] else 1) + 1)
                if len(sod['shape']) == 0:
                    nlev = 0        # a 0-d source is taken whole
                shape = list(sod['shape'])
                chain = []
                for lv in range(nlev):
                    flat = rng.random() < 0.4
                    spec = rand_index(rng, shape, flat, safe=o['safe_indices'])
                    lev = {'spec': spec, 'flat': flat}
                    _, shape = np_positions(shape, [lev])
                    if int(np.prod(shape)) == 0:
                        break
                    chain.append(lev)
                    if len(shape) == 0 or int(np.prod(shape)) == 1:
                        break
                pos, fshape = np_positions(sod['shape'], chain)
                if len(fshape) == 0:
                    fshape = [1]
                units = compatible_units(rng, sod['units']) if o['units'] and rng.random() < 0.6 \
                    else sod['units']
                if sod['units'] is None and o['units'] and rng.random() < 0.2:
                    units = None
                c['ins'].append({'name': iname, 'shape': fshape, 'units': units})
                conns.append({'tgt': [ci, iname], 'src': [sci, sod['name']], 'chain': chain,
                              'style': None})
            size = int(np.prod(c['ins'][-1]['shape']))
            in_elems.extend((j, e) for e in range(size))
        c['in_elems'] = in_elems
        c['poly'] = {}
        for j in range(rng.randint(1, 2)):
            shape = _rand_shape(rng, o['max_rank'], o['max_extent'])
            size = int(np.prod(shape))
            units = rng.choice([None, 'm', 'cm', 's', 'kg', 'N']) if o['units'] else None
            od = {'name': 'y%d%d' % (k, j), 'shape': shape, 'units': units}
            if o['scaling'] and rng.random() < 0.7:
                r0 = F(rng.randint(-8, 8), rng.choice([1, 2]))
                dr = rng.choice([F(1, 4), F(1, 2), F(2), F(4), F(-1), F(-2), F(8)])
                od['ref0'] = rat(r0)
                od['ref'] = rat(r0 + dr)
                od['res_ref'] = rat(rng.choice([F(1, 2), F(2), F(4), F(1, 8), F(16), F(1)]))
                if o['array_scaling'] and rng.random() < 0.4:
                    od['ref0'] = [rat(F(rng.randint(-8, 8), 2)) for _ in range(size)]
                    od['ref'] = [rat(unrat(a) + rng.choice([F(1, 2), F(2), F(-1), F(4)]))
                                 for a in od['ref0']]
                    od['res_ref'] = [rat(rng.choice([F(1, 2), F(2), F(4)])) for _ in range(size)]
                    if rng.random() < 0.35:
                        # partly identity: some entries unscaled (ref 1, ref0 0), others scaled
                        od['ref0'] = [rat(F(0))] * size
                        od['ref'] = [rat(rng.choice([F(1), F(1), F(10), F(1, 4), F(-2), F(250)]))
                                     for _ in range(size)]
                        if rng.random() < 0.5:
                            od['res_ref'] = [rat(rng.choice([F(1), F(1), F(4)])) for _ in range(size)]
                elif rng.random() < 0.15:
                    # scalar near-identity forms: a1 == 1 with a0 != 0, or identity with res_ref only
                    if rng.random() < 0.5:
                        od['ref'] = rat(unrat(od['ref0']) + 1)
                    else:
                        od['ref0'], od['ref'] = rat(F(0)), rat(F(1))
            if o['scaling'] and o.get('solver_options_api') and 'ref' in od and rng.random() < 0.5:
                # the scaling is given after the fact through set_output_solver_options
                od['via_solver_options'] = True
            c['outs'].append(od)
            c['poly'][od['name']] = [rand_poly(rng, in_elems, o['max_deg']) for _ in range(size)]
            outs.append((ci, od))
        if o['implicit'] and rng.random() < 0.3:
            # affine implicit component  R(u, x) = A u - B x - c  with a diagonally dominant A
            m = sum(int(np.prod(od['shape'])) for od in c['outs'])
            ne = len(in_elems)
            A = [[F(0)] * m for _ in range(m)]
            for r in range(m):
                for q in range(m):
                    if r != q and rng.random() < 0.5:
                        A[r][q] = F(rng.choice([-1, 1]))
                A[r][r] = F(rng.choice([-1, 1]) * rng.choice([4, 8]))
            Bm = [[F(rng.choice([-2, -1, 1, 2, 3])) if rng.random() < 0.5 else F(0)
                   for _ in range(ne)] for _ in range(m)]
            cv = [F(rng.randint(-8, 8), 2) for _ in range(m)]
            if len(c['outs']) > 1 and rng.random() < 0.5:
                # the last output depends on the inputs only through the other states, and only the
                # structurally nonzero partials are declared
                m0 = int(np.prod(c['outs'][0]['shape']))
                m_first = sum(int(np.prod(od['shape'])) for od in c['outs'][:-1])
                for r in range(m_first, m):
                    Bm[r] = [F(0)] * ne
                    A[r][rng.randrange(m_first)] = F(rng.choice([-1, 1]))
                c['structural_partials'] = True
            c['kind'] = 'implicit'
            c['A'] = [[rat(v) for v in row] for row in A]
            c['B'] = [[rat(v) for v in row] for row in Bm]
            c['c'] = [rat(v) for v in cv]
            c['poly'] = {}
            c['partials'] = rng.choice(['dense', 'dense', 'cs'])
            c['has_solve_linear'] = rng.random() < 0.7
        comps.append(c)
    md = {'groups': groups, 'comps': comps, 'conns': conns, 'cyclic': False}
    if o['cycles'] == 'converging':
        _add_converging_feedback(rng, md)
    elif o['cycles']:
        _add_feedback(rng, md)
    if o['resp_chain']:
        _add_response_chain(rng, md)
    md['dyn_sibling'] = bool(o['dyn_sibling'])
    if o['prefix_names']:
        # some component names become <name of an earlier sibling> + suffix, so that one pathname is
        # a plain string prefix of another without being its parent ('c0' / 'c0_b', 'c1' / 'c12')
        used = {(c['group'], c['name']) for c in comps}
        for k, c in enumerate(comps):
            sibs = [d for d in comps[:k] if d['group'] == c['group']]
            if sibs and rng.random() < 0.5:
                nm = rng.choice(sibs)['name'] + rng.choice(['2', '_b', 'x', '0'])
                if (c['group'], nm) not in used:
                    used.add((c['group'], nm))
                    c['name'] = nm
    _assign_styles(rng, md)
    if o['shuffle_order'] and o['partial_auto_order']:
        # only some groups reorder themselves (auto_order); the others are declared in data-flow
        # (creation) order.  Children of a group: its components and its direct sub-groups.
        allg = set([''])
        for c in comps:
            g = c['group']
            while g:
                allg.add(g)
                g = g.rpartition('.')[0]
        auto = {g for g in sorted(allg) if rng.random() < 0.6}

        def flatten(g):
            ch, seen = [], set()
            for ci, c in enumerate(comps):
                if c['group'] == g:
                    ch.append(('c', ci))
                elif c['group'].startswith(g + '.' if g else '') and c['group'] != g:
                    rest = c['group'][len(g) + 1:] if g else c['group']
                    sub = (g + '.' if g else '') + rest.split('.')[0]
                    if sub not in seen:
                        seen.add(sub)
                        ch.append(('g', sub))
            if g in auto:
                rng.shuffle(ch)
            out = []
            for kind, x in ch:
                out.extend([x] if kind == 'c' else flatten(x))
            return out
        md['add_order'] = flatten('')
        md['auto_order_groups'] = sorted(auto)
    elif o['shuffle_order']:
        order = list(range(len(comps)))
        rng.shuffle(order)
        md['add_order'] = order
    else:
        md['add_order'] = list(range(len(comps)))
    return md


def _add_response_chain(rng, md):
    """Append root-level components z = k * y (elementwise, whole output of an existing component,
    preferably one inside a sub-group): responses that depend on another response, so that adjoint
    right-hand sides reaching a sub-group are multiples of one another (LinearRHSChecker caches)."""
    comps, conns = md['comps'], md['conns']
    cands = [(ci, od) for ci, c in enumerate(comps) if c['kind'] != 'ivc' for od in c['outs']]
    if not cands:
        return
    pref = [x for x in cands if comps[x[0]]['group']]
    sci, sod = rng.choice(pref or cands)
    size = int(np.prod(sod['shape']))
    chain = [[sci, sod['name']]]
    for q in range(rng.randint(1, 2)):
        ci = len(comps)
        c = {'name': 'rc%d' % q, 'group': '', 'kind': 'explicit',
             'ins': [{'name': 'a0', 'shape': list(sod['shape']), 'units': sod['units']}],
             'outs': [{'name': 'z%d' % q, 'shape': list(sod['shape']), 'units': None}],
             'promote_outs': False, 'partials': rng.choice(['dense', 'sparse']),
             'in_elems': [(0, e) for e in range(size)]}
        same = rng.random() < 0.7
        k0 = rng.choice([F(-3, 2), F(-2), F(-1, 2), F(-3), F(2), F(-1), F(1)])
        polys = []
        for e in range(size):
            k = k0 if same else rng.choice([F(-3, 2), F(-2), F(-1, 2), F(3), F(-1)])
            terms = [{'c': rat(k), 'mon': [[e, 1]]}]
            if rng.random() < 0.3:
                terms.insert(0, {'c': rat(rand_coef(rng)), 'mon': []})
            polys.append(terms)
        c['poly'] = {'z%d' % q: polys}
        conns.append({'tgt': [ci, 'a0'], 'src': [sci, sod['name']], 'chain': [], 'style': None})
        comps.append(c)
        chain.append([ci, 'z%d' % q])
    md['resp_chain'] = chain


def _add_feedback(rng, md):
    """Add 1-2 feedback connections (a later component's output into an earlier component), which
    creates cycles in the data-flow graph. The new input enters one output linearly."""
    comps = md['comps']
    expl = [ci for ci, c in enumerate(comps) if c['kind'] == 'explicit']
    if len(expl) < 2:
        return
    for n in range(rng.randint(1, 2)):
        a, b = sorted(rng.sample(expl, 2))
        A, B = comps[a], comps[b]
        od = rng.choice(B['outs'])
        iname = 'fb%d' % n
        if any(i['name'] == iname for i in A['ins']):
            continue
        A['ins'].append({'name': iname, 'shape': list(od['shape']), 'units': od['units']})
        j = len(A['ins']) - 1
        e0 = len(A['in_elems'])
        A['in_elems'].extend((j, e) for e in range(int(np.prod(od['shape']))))
        oname = A['outs'][0]['name']
        A['poly'][oname][0].append({'c': rat(F(1, 8)), 'mon': [[e0, 1]]})
        md['conns'].append({'tgt': [a, iname], 'src': [b, od['name']], 'chain': [], 'style': None})
        md['cyclic'] = True


def _add_converging_feedback(rng, md):
    """One feedback connection that keeps the acyclic model's exact state as the converged state:
    the new input `fb` (from a later component's output y) enters one output of an earlier
    component through the term  k * (fb[e] - y*[e])  which vanishes at the acyclic state y*.
    k is chosen so that the loop gain is at most 1/4 (block Gauss-Seidel, Jacobi and Newton
    converge). Components on the loop are affine so the converged state is unique."""
    comps = md['comps']
    expl = [ci for ci, c in enumerate(comps) if c['kind'] == 'explicit']
    if len(expl) < 2:
        return
    # pick a downstream pair (a feeds b through the data flow), so that the loop is real
    deps = {ci: set() for ci in range(len(comps))}
    for cn in md['conns']:
        if cn['src'] is not None:
            deps[cn['tgt'][0]].add(cn['src'][0])
    def upstream(ci, seen=None):
        seen = seen if seen is not None else set()
        for d in deps[ci]:
            if d not in seen:
                seen.add(d)
                upstream(d, seen)
        return seen
    pairs = [(a, b) for b in expl for a in upstream(b) if a in expl and a != b]
    if not pairs:
        return
    a, b = rng.choice(pairs)
    A, B = comps[a], comps[b]
    od = rng.choice(B['outs'])
    size = int(np.prod(od['shape']))
    outs, ins = exact_state(md)
    ystar = outs[comp_path(B) + '.' + od['name']]
    iname = 'fb0'
    A['ins'].append({'name': iname, 'shape': list(od['shape']), 'units': od['units']})
    j = len(A['ins']) - 1
    e0 = len(A['in_elems'])
    A['in_elems'].extend((j, e) for e in range(size))
    oname = A['outs'][0]['name']
    e = rng.randrange(size)
    cn = {'tgt': [a, iname], 'src': [b, od['name']], 'chain': [], 'style': None,
          'feedback': True, 'fb_val': [rat(v) for v in ystar]}
    md['conns'].append(cn)
    # loop gain: derivative of y[e] with respect to A's first output element, acyclic part
    g = _loop_gain(md, a, oname, b, od['name'], e)
    k = F(1, 4) / max(F(1), abs(g))
    # round k down to a power of two
    p2 = F(1)
    while p2 > k:
        p2 /= 2
    k = p2 * rng.choice([1, -1])
    A['poly'][oname][0].append({'c': rat(k), 'mon': [[e0 + e, 1]]})
    A['poly'][oname][0].append({'c': rat(-k * ystar[e]), 'mon': []})
    md['cyclic'] = True
    md['converging'] = True


def _loop_gain(md, a, oname, b, yname, e):
    """d y_b[e] / d (first element of output `oname` of comp a) in the acyclic model, exactly."""
    key = comp_path(md['comps'][a]) + '.' + oname
    outs, ins = exact_state(md, bump={key: 0})
    y = outs[comp_path(md['comps'][b]) + '.' + yname][e]
    return y.du if isinstance(y, DualF) else F(0)


def comp_path(c):
    return (c['group'] + '.' if c['group'] else '') + c['name']


def out_root_name(md, ci, oname):
    """Name by which the output is addressable at the model root."""
    c = md['comps'][ci]
    if c['promote_outs']:
        return oname
    return comp_path(c) + '.' + oname


def _assign_styles(rng, md):
    """Decide, for every connection, how it is expressed in the real model.

    levels: list, innermost (component's parent) first ... root last, of
      {'group': path, 'alias': promoted name at that level or None (= not promoted there),
       'idx': index of chain entry applied at that level or None}
    The last chain entries are applied innermost. A connection is finally made by an explicit
    `connect` at the root (from the root name of the source to the name of the input at the root).
    """
    used = set()
    shared_first = {}
    for n, cn in enumerate(md['conns']):
        ci, iname = cn['tgt']
        c = md['comps'][ci]
        glevels = []          # group paths from the component's parent up to root
        g = c['group']
        while True:
            glevels.append(g)
            if g == '':
                break
            g = g.rpartition('.')[0]
        chain = cn['chain']
        nchain = len(chain)
        # number of promotion levels (excluding root connect): promoting at glevels[0..k-1]
        # an input promoted at level j has a name inside group glevels[j]
        kmax = len(glevels)
        if cn['style'] == 'auto_ivc':
            k = rng.randint(0, kmax)
            if md.get('dyn_sibling') and kmax > 0 and rng.random() < 0.7:
                # the promoted name is shared with a dynamically shaped (shape_by_conn) sibling input
                k = max(k, 1)
                cn['dyn_sibling'] = True
            cn['promote_levels'] = k
            cn['alias'] = 'p%d_%s' % (n, iname) if k > 0 else None
            cn['level_idx'] = [None] * k
            continue
        if 'share' in cn:
            # both inputs of a shared promotes() call: same number of levels, the single chain entry
            # on the same promote level, own aliases
            first = shared_first.get(cn['share'])
            if first is None:
                k = rng.randint(1, kmax)
                lev = rng.randrange(k)
                shared_first[cn['share']] = (k, lev)
            else:
                k, lev = first
            level_idx = [None] * k
            level_idx[lev] = 0
            cn['promote_levels'] = k
            cn['alias'] = 'p%d_%s' % (n, iname)
            cn['level_idx'] = level_idx
            cn['connect_idx'] = None
            cn['style'] = 'connect'
            continue
        # chain entries: first one may go on the root connect; remaining on promotes levels
        need_prom = max(0, nchain - 1)
        k = rng.randint(min(need_prom, kmax), kmax) if kmax >= need_prom else kmax
        # if not enough levels to host the chain, truncate the chain from the inner side by merging
        # is not possible -> drop extra entries (regenerate shape later)
        if need_prom > k:
            cn['chain'] = chain = chain[:k + 1]
            nchain = len(chain)
        # assign chain entries: entry 0 -> root connect (or outermost promote if rng says so and
        # there is room), the rest innermost-last
        level_idx = [None] * k      # promote level j (0 = innermost) hosts chain entry index
        on_connect = None
        rest = list(range(nchain))
        if nchain and (nchain - 1 >= k or rng.random() < 0.6):
            on_connect = rest.pop(0)
        # remaining entries go to promote levels, order: outermost promote gets the earliest entry
        levels_avail = list(range(k - 1, -1, -1))     # outermost first
        if len(rest) > len(levels_avail):
            # should not happen given the construction above
            rest = rest[:len(levels_avail)]
            cn['chain'] = chain = chain[:len(rest) + (1 if on_connect is not None else 0)]
        chosen = sorted(rng.sample(range(len(levels_avail)), len(rest))) if rest else []
        for e, li in zip(rest, chosen):
            level_idx[levels_avail[li]] = e
        cn['promote_levels'] = k
        cn['alias'] = 'p%d_%s' % (n, iname) if k > 0 else None
        cn['level_idx'] = level_idx
        cn['connect_idx'] = on_connect
        cn['style'] = 'connect'
    # recompute input shapes (chains may have been truncated)
    for cn in md['conns']:
        if cn['src'] is None:
            continue
        ci, iname = cn['tgt']
        sci, soname = cn['src']
        sod = [o for o in md['comps'][sci]['outs'] if o['name'] == soname][0]
        pos, fshape = np_positions(sod['shape'], cn['chain'])
        if len(fshape) == 0:
            fshape = [1]
        for i in md['comps'][ci]['ins']:
            if i['name'] == iname:
                if i['shape'] != fshape:
                    raise RuntimeError('shape changed after chain truncation')


def fix_md(md):
    """Recompute in_elems / polys consistency after any manual edit (sizes)."""
    return md


# ------------------------------------------------------------------------------------------------
# exact evaluation

def frac_solve(A, B):
    """Exact solve A X = B (lists of lists of Fraction/DualF-free Fractions). Returns X or None."""
    n = len(A)
    m = len(B[0]) if B else 0
    M = [list(A[i]) + list(B[i]) for i in range(n)]
    for col in range(n):
        piv = None
        for r in range(col, n):
            if M[r][col] != 0:
                piv = r
                break
        if piv is None:
            return None
        M[col], M[piv] = M[piv], M[col]
        pv = M[col][col]
        M[col] = [x / pv for x in M[col]]
        for r in range(n):
            if r != col and M[r][col] != 0:
                f = M[r][col]
                M[r] = [x - f * y for x, y in zip(M[r], M[col])]
    return [row[n:] for row in M]


def implicit_solution(c, flat):
    """u = A^-1 (B x + c) for an affine implicit component (exact; x may hold DualF)."""
    A = [[unrat(v) for v in row] for row in c['A']]
    Bm = [[unrat(v) for v in row] for row in c['B']]
    cv = [unrat(v) for v in c['c']]
    m = len(A)
    Ainv = frac_solve(A, [[F(1) if i == j else F(0) for j in range(m)] for i in range(m)])
    rhs = []
    for k in range(m):
        t = cv[k]
        for j, x in enumerate(flat):
            if Bm[k][j] != 0:
                t = t + Bm[k][j] * x
        rhs.append(t)
    out = []
    for k in range(m):
        t = F(0)
        for j in range(m):
            if Ainv[k][j] != 0:
                t = t + Ainv[k][j] * rhs[j]
        out.append(t)
    return out


def exact_state(md, overrides=None, bump=None):
    """Exact values: returns (outs, ins): dicts keyed by 'path.var' -> list of Fractions (flat).
    `bump={key: elem}` adds the dual unit to one explicit output element (sensitivity probe).
    For models with a (value preserving) feedback connection the state of the underlying acyclic
    model is returned: by construction it is also the converged state of the cyclic model."""
    outs, ins = {}, {}
    overrides = overrides or {}
    conn_by_tgt = {(cn['tgt'][0], cn['tgt'][1]): cn for cn in md['conns']}
    for ci, c in enumerate(md['comps']):
        p = comp_path(c)
        if c['kind'] == 'ivc':
            for od in c['outs']:
                key = p + '.' + od['name']
                outs[key] = [_val(v) for v in overrides.get(key, od['val'])]
            continue
        xs = []
        for idef in c['ins']:
            cn = conn_by_tgt[(ci, idef['name'])]
            key = p + '.' + idef['name']
            if cn['src'] is None:
                vals = [_val(v) for v in overrides.get(key, cn['val'])]
            elif cn.get('feedback'):
                # value-preserving feedback: at the converged state the input holds the recorded
                # value of its (later) source
                vals = [unrat(v) for v in cn['fb_val']]
            else:
                sci, soname = cn['src']
                sc = md['comps'][sci]
                sod = [o for o in sc['outs'] if o['name'] == soname][0]
                sv = outs[comp_path(sc) + '.' + soname]
                pos, _ = np_positions(sod['shape'], cn['chain'])
                fac, off = unit_conv(sod['units'], idef['units'])
                vals = [(sv[q] + off) * fac for q in pos]
            ins[key] = vals
            xs.append(vals)
        flat = [xs[j][e] for (j, e) in c['in_elems']]
        if c['kind'] == 'implicit':
            sol = implicit_solution(c, flat)
            k = 0
            for od in c['outs']:
                size = int(np.prod(od['shape']))
                outs[p + '.' + od['name']] = sol[k:k + size]
                k += size
        else:
            for od in c['outs']:
                outs[p + '.' + od['name']] = [poly_eval(t, flat) for t in c['poly'][od['name']]]
        if bump:
            for od in c['outs']:
                key = p + '.' + od['name']
                if key in bump:
                    outs[key][bump[key]] = outs[key][bump[key]] + DualF(0, 1)
    return outs, ins


# ------------------------------------------------------------------------------------------------
# real OpenMDAO problem

def make_polycomp_class():
    import openmdao.api as om

    class PolyComp(om.ExplicitComponent):
        """Explicit component evaluating the polynomial description of one `md` component."""

        def initialize(self):
            self.options.declare('cdef', types=dict, recordable=False)
            self.options.declare('log', default=None, recordable=False)

        def setup(self):
            c = self.options['cdef']
            for i in c['ins']:
                self.add_input(i['name'], val=np.ones(i['shape']), units=i['units'])
            for od in c['outs']:
                kw = {}
                for k in ('ref', 'ref0', 'res_ref', 'lower', 'upper'):
                    if od.get(k) is not None and not od.get('via_solver_options'):
                        v = od[k]
                        kw[k] = np.array([float(unrat(x)) for x in v]).reshape(od['shape']) \
                            if isinstance(v, list) else float(unrat(v))
                self.add_output(od['name'], val=np.ones(od['shape']), units=od['units'], **kw)
            self._sizes = [int(np.prod(i['shape'])) for i in c['ins']]
            self._offs = np.concatenate([[0], np.cumsum(self._sizes)]).astype(int)
            self._nflat = int(self._offs[-1])
            self._elem_pos = [int(self._offs[j] + e) for (j, e) in c['in_elems']]

        def setup_partials(self):
            c = self.options['cdef']
            mode = c.get('partials', 'dense')
            if mode == 'matfree':
                return
            for od in c['outs']:
                polys = c['poly'][od['name']]
                for j, i in enumerate(c['ins']):
                    if mode in ('cs', 'fd'):
                        self.declare_partials(od['name'], i['name'], method=mode)
                    elif mode == 'sparse':
                        rows, cols = [], []
                        for r, terms in enumerate(polys):
                            dep = set()
                            for t in terms:
                                for e, p in t['mon']:
                                    jj, ee = c['in_elems'][e]
                                    if jj == j:
                                        dep.add(ee)
                            for cc in sorted(dep):
                                rows.append(r)
                                cols.append(cc)
                        if rows:
                            self.declare_partials(od['name'], i['name'], rows=rows, cols=cols)
                    else:
                        self.declare_partials(od['name'], i['name'])

        def _flat_inputs(self, inputs):
            c = self.options['cdef']
            parts = [np.asarray(inputs[i['name']]).ravel() for i in c['ins']]
            full = np.concatenate(parts) if parts else np.zeros(0)
            return full[self._elem_pos] if len(self._elem_pos) else full[:0]

        def compute(self, inputs, outputs):
            c = self.options['cdef']
            log = self.options['log']
            if log is not None:
                log.append((self.pathname, {i['name']: np.array(inputs[i['name']]).ravel().copy()
                                            for i in c['ins']}))
            xs = self._flat_inputs(inputs)
            for od in c['outs']:
                vals = [poly_eval_float(t, xs) for t in c['poly'][od['name']]]
                outputs[od['name']] = np.array(vals).reshape(od['shape'])

        def _jac(self, inputs):
            """dict (out, in) -> dense (nout, nin) array"""
            c = self.options['cdef']
            xs = self._flat_inputs(inputs)
            ne = len(xs)
            res = {}
            for od in c['outs']:
                polys = c['poly'][od['name']]
                G = np.array([poly_grad_float(t, xs, ne) for t in polys]).reshape(len(polys), ne)
                for j, i in enumerate(c['ins']):
                    J = np.zeros((len(polys), self._sizes[j]), dtype=G.dtype)
                    for e, (jj, ee) in enumerate(c['in_elems']):
                        if jj == j:
                            J[:, ee] += G[:, e]
                    res[od['name'], i['name']] = J
            return res

        def compute_partials(self, inputs, partials):
            c = self.options['cdef']
            mode = c.get('partials', 'dense')
            if mode in ('cs', 'fd', 'matfree'):
                return
            jac = self._jac(inputs)
            for (o, i), J in jac.items():
                if mode == 'sparse':
                    try:
                        meta = self._subjacs_info[self.pathname + '.' + o, self.pathname + '.' + i]
                    except KeyError:
                        continue
                    rows, cols = meta['rows'], meta['cols']
                    partials[o, i] = J[rows, cols]
                else:
                    partials[o, i] = J

    class PolyCompMF(PolyComp):
        def compute_jacvec_product(self, inputs, d_inputs, d_outputs, mode):
            jac = self._jac(inputs)
            for (o, i), J in jac.items():
                if o in d_outputs and i in d_inputs:
                    if mode == 'fwd':
                        d_outputs[o] += (J @ np.asarray(d_inputs[i]).ravel()).reshape(
                            d_outputs[o].shape)
                    else:
                        d_inputs[i] += (J.T @ np.asarray(d_outputs[o]).ravel()).reshape(
                            d_inputs[i].shape)

    class AffImp(om.ImplicitComponent):
        """Affine implicit component  R(u, x) = A u - B x - c  of one `md` component."""

        def initialize(self):
            self.options.declare('cdef', types=dict, recordable=False)
            self.options.declare('log', default=None, recordable=False)

        def setup(self):
            c = self.options['cdef']
            for i in c['ins']:
                self.add_input(i['name'], val=np.ones(i['shape']), units=i['units'])
            for od in c['outs']:
                kw = {}
                for k in ('ref', 'ref0', 'res_ref', 'lower', 'upper'):
                    if od.get(k) is not None and not od.get('via_solver_options'):
                        v = od[k]
                        kw[k] = np.array([float(unrat(x)) for x in v]).reshape(od['shape']) \
                            if isinstance(v, list) else float(unrat(v))
                self.add_output(od['name'], val=np.ones(od['shape']), units=od['units'], **kw)
            self._A = np.array([[float(unrat(v)) for v in row] for row in c['A']])
            self._B = np.array([[float(unrat(v)) for v in row] for row in c['B']]).reshape(
                len(c['A']), -1)
            self._c = np.array([float(unrat(v)) for v in c['c']])
            self._isizes = [int(np.prod(i['shape'])) for i in c['ins']]
            self._ioffs = np.concatenate([[0], np.cumsum(self._isizes)]).astype(int)
            self._osizes = [int(np.prod(o['shape'])) for o in c['outs']]
            self._ooffs = np.concatenate([[0], np.cumsum(self._osizes)]).astype(int)
            self._elem_pos = [int(self._ioffs[j] + e) for (j, e) in c['in_elems']]

        def setup_partials(self):
            c = self.options['cdef']
            meth = c.get('partials', 'dense')
            kw = {'method': 'cs'} if meth == 'cs' else {}
            structural = bool(c.get('structural_partials'))
            self._decl = set()
            for k, o in enumerate(c['outs']):
                rows = slice(self._ooffs[k], self._ooffs[k + 1])
                for k2, o2 in enumerate(c['outs']):
                    blk = self._A[rows, self._ooffs[k2]:self._ooffs[k2 + 1]]
                    if structural and not np.any(blk):
                        continue        # only the structurally nonzero partials are declared
                    self.declare_partials(o['name'], o2['name'], **kw)
                    self._decl.add((o['name'], o2['name']))
                for j, i in enumerate(c['ins']):
                    cols = [e for e, (jj, ee) in enumerate(c['in_elems']) if jj == j]
                    if structural and not (cols and np.any(self._B[rows][:, cols])):
                        continue
                    self.declare_partials(o['name'], i['name'], **kw)
                    self._decl.add((o['name'], i['name']))

        def _x(self, inputs):
            c = self.options['cdef']
            parts = [np.asarray(inputs[i['name']]).ravel() for i in c['ins']]
            full = np.concatenate(parts) if parts else np.zeros(0)
            return full[self._elem_pos] if len(self._elem_pos) else full[:0]

        def _u(self, outputs):
            c = self.options['cdef']
            return np.concatenate([np.asarray(outputs[o['name']]).ravel() for o in c['outs']])

        def _split(self, vec, target):
            c = self.options['cdef']
            for k, o in enumerate(c['outs']):
                target[o['name']] = vec[self._ooffs[k]:self._ooffs[k + 1]].reshape(o['shape'])

        def apply_nonlinear(self, inputs, outputs, residuals):
            log = self.options['log']
            c = self.options['cdef']
            if log is not None:
                log.append((self.pathname, {i['name']: np.array(inputs[i['name']]).ravel().copy()
                                            for i in c['ins']}))
            x = self._x(inputs)
            r = self._A @ self._u(outputs) - (self._B @ x if x.size else 0.0) - self._c
            self._split(r, residuals)

        def solve_nonlinear(self, inputs, outputs):
            log = self.options['log']
            c = self.options['cdef']
            if log is not None:
                log.append((self.pathname, {i['name']: np.array(inputs[i['name']]).ravel().copy()
                                            for i in c['ins']}))
            x = self._x(inputs)
            u = np.linalg.solve(self._A.astype(x.dtype if x.size else float),
                                (self._B @ x if x.size else 0.0) + self._c)
            self._split(u, outputs)

        def linearize(self, inputs, outputs, partials):
            c = self.options['cdef']
            if c.get('partials') == 'cs':
                return
            for k, o in enumerate(c['outs']):
                rows = slice(self._ooffs[k], self._ooffs[k + 1])
                for k2, o2 in enumerate(c['outs']):
                    if (o['name'], o2['name']) in self._decl:
                        partials[o['name'], o2['name']] = \
                            self._A[rows, self._ooffs[k2]:self._ooffs[k2 + 1]]
                for j, i in enumerate(c['ins']):
                    if (o['name'], i['name']) not in self._decl:
                        continue
                    J = np.zeros((self._osizes[k], self._isizes[j]))
                    for e, (jj, ee) in enumerate(c['in_elems']):
                        if jj == j:
                            J[:, ee] += -self._B[rows, e]
                    partials[o['name'], i['name']] = J

        def solve_linear(self, d_outputs, d_residuals, mode):
            c = self.options['cdef']
            if mode == 'fwd':
                r = np.concatenate([np.asarray(d_residuals[o['name']]).ravel() for o in c['outs']])
                self._split(np.linalg.solve(self._A, r), d_outputs)
            else:
                r = np.concatenate([np.asarray(d_outputs[o['name']]).ravel() for o in c['outs']])
                self._split(np.linalg.solve(self._A.T, r), d_residuals)

    class AffImpMF(AffImp):
        """The same implicit component, matrix-free: `apply_linear` instead of `linearize`.  Every
        call logs the nonlinear `outputs` and `inputs` it was handed (they must be the physical,
        unscaled values whatever the solver scaling is)."""

        def setup_partials(self):
            self._decl = set()

        def linearize(self, inputs, outputs, partials):
            pass

        def apply_linear(self, inputs, outputs, d_inputs, d_outputs, d_residuals, mode):
            c = self.options['cdef']
            log = self.options['log']
            if log is not None:
                log.append((self.pathname + ':apply_linear',
                            {o['name']: np.array(outputs[o['name']]).ravel().copy() for o in c['outs']},
                            {i['name']: np.array(inputs[i['name']]).ravel().copy() for i in c['ins']}))
            for k, o in enumerate(c['outs']):
                rows = slice(self._ooffs[k], self._ooffs[k + 1])
                if o['name'] not in d_residuals:
                    continue
                for k2, o2 in enumerate(c['outs']):
                    if o2['name'] not in d_outputs:
                        continue
                    blk = self._A[rows, self._ooffs[k2]:self._ooffs[k2 + 1]]
                    if mode == 'fwd':
                        d_residuals[o['name']] += (blk @ np.asarray(d_outputs[o2['name']]).ravel()
                                                   ).reshape(o['shape'])
                    else:
                        d_outputs[o2['name']] += (blk.T @ np.asarray(d_residuals[o['name']]).ravel()
                                                  ).reshape(o2['shape'])
                for j, i in enumerate(c['ins']):
                    if i['name'] not in d_inputs:
                        continue
                    J = np.zeros((self._osizes[k], self._isizes[j]))
                    for e, (jj, ee) in enumerate(c['in_elems']):
                        if jj == j:
                            J[:, ee] += -self._B[rows, e]
                    if mode == 'fwd':
                        d_residuals[o['name']] += (J @ np.asarray(d_inputs[i['name']]).ravel()
                                                   ).reshape(o['shape'])
                    else:
                        d_inputs[i['name']] += (J.T @ np.asarray(d_residuals[o['name']]).ravel()
                                                ).reshape(i['shape'])

    return PolyComp, PolyCompMF, AffImp, AffImpMF


_CLASSES = None


def build_problem(md, log=None, cfg=None):
    """Build (not set up) the real Problem for `md`. Returns (problem, info)."""
    global _CLASSES
    import openmdao.api as om
    if _CLASSES is None:
        _CLASSES = make_polycomp_class()
    PolyComp, PolyCompMF, AffImp, AffImpMF = _CLASSES
    cfg = cfg or {}
    p = om.Problem()
    model = p.model
    gobj = {'': model}

    def need_group(g):
        if g in gobj:
            return gobj[g]
        parent, _, name = g.rpartition('.')
        gobj[g] = need_group(parent).add_subsystem(name, om.Group())
        if cfg.get('auto_order') and (auto_groups is None or g in auto_groups):
            gobj[g].options['auto_order'] = True
        return gobj[g]
    auto_groups = set(md['auto_order_groups']) if 'auto_order_groups' in md else None
    if cfg.get('auto_order') and (auto_groups is None or '' in auto_groups):
        model.options['auto_order'] = True
    cobj = {}
    for ci in md['add_order']:
        c = md['comps'][ci]
        need_group(c['group'])
        if c['kind'] == 'ivc':
            comp = om.IndepVarComp()
            for od in c['outs']:
                kw = {'shape': ()} if len(od['shape']) == 0 else {}     # a true 0-d variable
                comp.add_output(od['name'], val=np.array([float(unrat(v)) for v in od['val']]
                                                         ).reshape(od['shape']), units=od['units'],
                                **kw)
        else:
            cd = dict(c)
            if cfg.get('partials'):
                cd['partials'] = cfg['partials']
            if cfg.get('jac') and cd.get('partials') == 'matfree':
                # an assembled jacobian rejects matrix-free components by design
                cd['partials'] = 'dense'
            if c['kind'] == 'implicit':
                comp = (AffImpMF if cfg.get('implicit_matfree') and not cfg.get('jac') else AffImp)(
                    cdef=cd, log=log)
            else:
                cls = PolyCompMF if cd.get('partials') == 'matfree' else PolyComp
                comp = cls(cdef=cd, log=log)
        gobj[c['group']].add_subsystem(c['name'], comp)
        cobj[ci] = comp
    for ci, c in enumerate(md['comps']):
        for od in c.get('outs', []):
            if od.get('via_solver_options'):
                kw = {}
                for k in ('ref', 'ref0', 'res_ref'):
                    if od.get(k) is not None:
                        v = od[k]
                        kw[k] = np.array([float(unrat(x)) for x in v]).reshape(od['shape']) \
                            if isinstance(v, list) else float(unrat(v))
                # called on the component's own group (calling it on an ancestor with a dotted
                # path crashes in final_setup on the unchanged tree: TypeError in _set_scaling)
                gobj[c['group']].set_output_solver_options(c['name'] + '.' + od['name'], **kw)
    _apply_solver_cfg(om, model, gobj, cfg)
    # output promotion to the root with unchanged names
    for ci, c in enumerate(md['comps']):
        if c['promote_outs']:
            g = c['group']
            child = c['name']
            onames = [o['name'] for o in c['outs']]
            while True:
                gobj[g].promotes(child, outputs=onames)
                if g == '':
                    break
                g, _, child = g.rpartition('.')
    # input promotions and connections
    shared_done = set()
    for cn in md['conns']:
        ci, iname = cn['tgt']
        c = md['comps'][ci]
        k = cn['promote_levels']
        g = c['group']
        child = c['name']
        cur = iname
        for lev in range(k):
            e = cn['level_idx'][lev]
            alias = cn['alias']
            kw = {}
            if e is not None and cn['chain'][e]['spec'] is not None:
                kw['src_indices'] = spec_to_py(cn['chain'][e]['spec'])
                kw['flat_src_indices'] = bool(cn['chain'][e]['flat'])
                if cn['src'] is None:
                    pass
            partner = None
            if 'share' in cn and e is not None:
                partner = [x for x in md['conns'] if x.get('share') == cn['share'] and x is not cn][0]
            if partner is not None:
                if ('done', cn['share']) not in shared_done:
                    shared_done.add(('done', cn['share']))
                    pcur = partner['tgt'][1] if lev == 0 else partner['alias']
                    gobj[g].promotes(child, inputs=[(cur, alias) if cur != alias else cur,
                                                    (pcur, partner['alias'])
                                                    if pcur != partner['alias'] else pcur], **kw)
            else:
                gobj[g].promotes(child, inputs=[(cur, alias)] if cur != alias else [cur], **kw)
            cur = alias
            g, _, child = (g.rpartition('.') if g else ('', '', ''))
            if lev < k - 1 and child == '':
                raise RuntimeError('promotion beyond root')
        # name of the input at the root
        depth_names = (c['group'].split('.') if c['group'] else []) + [c['name']]
        remaining = depth_names[:len(depth_names) - k]
        tgt_root = '.'.join(remaining + [cur])
        cn['tgt_root'] = tgt_root
        if cn['src'] is None:
            idef = [i for i in c['ins'] if i['name'] == iname][0]
            if cn.get('dyn_sibling') and k > 0 and not idef.get('units'):
                # a sibling with a dynamically shaped input promoted to the same name, in the group
                # where the innermost promoted name lives
                host = c['group']
                sib = _make_dyn_sibling(om)
                gobj[host].add_subsystem('dyn%d_%s' % (ci, iname), sib,
                                         promotes_inputs=[('d', cn['alias'])])
            continue
        sci, soname = cn['src']
        src_root = out_root_name(md, sci, soname)
        kw = {}
        e = cn.get('connect_idx')
        if e is not None and cn['chain'][e]['spec'] is not None:
            kw['src_indices'] = spec_to_py(cn['chain'][e]['spec'])
            kw['flat_src_indices'] = bool(cn['chain'][e]['flat'])
        model.connect(src_root, tgt_root, **kw)
    return p, {'groups': gobj, 'comps': cobj}


def _make_dyn_sibling(om):
    class DynSib(om.ExplicitComponent):
        def setup(self):
            self.add_input('d', shape_by_conn=True)
            self.add_output('dy', copy_shape='d')

        def setup_partials(self):
            self.declare_partials('dy', 'd', method='cs')

        def compute(self, inputs, outputs):
            outputs['dy'] = 2.0 * inputs['d']
    return DynSib()


def _apply_solver_cfg(om, model, gobj, cfg):
    """cfg['linear'] in {None,'runonce','direct','direct_asm','krylov','lbgs','lbjac'}, applied at the
    root; cfg['sub_linear'] the same for every sub-group; cfg['jac'] in {None,'dense','csc','csr'};
    cfg['sub_approx'] in {None,'cs','fd'}: approx_totals on every direct child group of the root."""
    def mk(kind):
        rc = cfg.get('rhs_checking') or False
        if kind == 'direct':
            return om.DirectSolver(assemble_jac=False, rhs_checking=rc)
        if kind == 'direct_asm':
            return om.DirectSolver(assemble_jac=True, rhs_checking=rc)
        if kind == 'krylov':
            s = om.ScipyKrylov(assemble_jac=bool(cfg.get('jac')) and cfg.get('krylov_assemble', True),
                              rhs_checking=rc)
            # relative tolerance only: generated models can have derivative seeds far below any fixed
            # absolute tolerance (gmres returns x0 = 0 at once when |b| < atol)
            s.options['atol'] = 1e-200
            s.options['rtol'] = 1e-10
            s.options['err_on_non_converge'] = bool(cfg.get('krylov_err', True))
            s.options['maxiter'] = 200
            s.options['restart'] = cfg.get('krylov_restart', 200)
            s.options['iprint'] = -1
            return s
        if kind == 'lbgs':
            return om.LinearBlockGS(atol=1e-13, rtol=1e-13, maxiter=40, iprint=-1)
        if kind == 'lbjac':
            return om.LinearBlockJac(atol=1e-13, rtol=1e-13, maxiter=80, iprint=-1)
        if kind == 'runonce':
            return om.LinearRunOnce()
        return None
    nl = cfg.get('nonlinear')
    if nl == 'nlbgs':
        model.nonlinear_solver = om.NonlinearBlockGS(maxiter=200, atol=1e-13, rtol=1e-13, iprint=-1)
    elif nl == 'nlbjac':
        model.nonlinear_solver = om.NonlinearBlockJac(maxiter=400, atol=1e-13, rtol=1e-13, iprint=-1)
    elif nl == 'newton':
        model.nonlinear_solver = om.NewtonSolver(solve_subsystems=bool(cfg.get('solve_subsystems')),
                                                 maxiter=50, atol=1e-13, rtol=1e-13, iprint=-1)
    elif nl == 'broyden':
        model.nonlinear_solver = om.BroydenSolver(maxiter=100, atol=1e-13, rtol=1e-13, iprint=-1)
    if cfg.get('jac'):
        model.options['assembled_jac_type'] = cfg['jac']
    ls = mk(cfg.get('linear'))
    if ls is not None:
        model.linear_solver = ls
    for path, g in gobj.items():
        if path == '':
            continue
        kind = cfg.get('sub_linear')
        if cfg.get('sub_by_depth'):
            # different solvers per nesting depth (1 = direct child of the root)
            kind = cfg['sub_by_depth'].get(str(path.count('.') + 1), kind)
        if cfg.get('sub_approx') and '.' not in path:
            # semi-total derivatives: every direct child group of the root approximates its own
            # jacobian (complex step is exact for the generated affine components)
            g.approx_totals(method=cfg['sub_approx'])
        ls = mk(kind)
        if ls is not None:
            g.linear_solver = ls
            if cfg.get('jac') or kind == 'direct_asm':
                g.options['assembled_jac_type'] = cfg.get('jac') or 'csc'


def set_auto_ivc_values(p, md):
    for cn in md['conns']:
        if cn['src'] is None:
            ci, iname = cn['tgt']
            c = md['comps'][ci]
            idef = [i for i in c['ins'] if i['name'] == iname][0]
            p.set_val(cn['tgt_root'], np.array([float(unrat(v)) for v in cn['val']]
                                               ).reshape(idef['shape']))


def md_summary(md):
    forms = []
    for cn in md['conns']:
        for lev in cn['chain']:
            if lev['spec'] is not None:
                forms.append(lev['spec']['t'] + ('/flat' if lev['flat'] else ''))
    return {'n_comps': len(md['comps']), 'n_conns': len(md['conns']), 'forms': forms,
            'groups': len(md['groups'])}


# ------------------------------------------------------------------------------------------------
# flat ModelSpec (wire format for the Lean drivers)

def np_level_positions(shape, lev):
    """Local flat positions selected by one level on a source of `shape`, and the new shape."""
    a = np.arange(int(np.prod(shape)), dtype=int).reshape(shape)
    src = a.ravel() if lev['flat'] else a
    r = np.asarray(src[spec_to_py(lev['spec'])])
    return r.ravel().tolist(), list(r.shape)


def spec_wire(spec, top=True):
    """Index specification in the wire format of the Lean drivers (Driver/C05, Driver/C04)."""
    t = spec['t']
    if t == 'tup':
        return {'tup': [spec_wire(x, False) for x in spec['v']]}
    if t == 'int':
        ix = {'i': int(spec['v'])}
    elif t == 'slice':
        ix = {'s': [None if x is None else int(x) for x in spec['v']]}
    elif t in ('arr', 'list'):
        ix = {'a': [len(spec['v'])], 'd': [int(x) for x in spec['v']]}
    elif t == 'ell':
        ix = 'e'
    else:
        raise ValueError(t)
    return {'one': ix} if top else ix


def chain_levels(shape, chain):
    """Per-level local positions (what each level selects from the previous level's result)."""
    levels = []
    shape = list(shape)
    for lev in chain:
        pos, shape = np_level_positions(shape, lev)
        levels.append(pos)
    return levels


def terms_to_expr(terms, elem_var):
    """Polynomial terms -> Expr JSON over variables elem_var[e]."""
    def mono(t):
        e = ["c", t['c']]
        for k, p in t['mon']:
            for _ in range(p):
                e = ["*", e, ["v", elem_var[k]]]
        return e
    if not terms:
        return ["c", "0/1"]
    e = mono(terms[0])
    for t in terms[1:]:
        e = ["+", e, mono(t)]
    return e


def implicit_solution_terms(c):
    """The explicit solution u = A^-1 B x + A^-1 c of an affine implicit component as polynomial
    terms over its input elements."""
    ne = len(c['in_elems'])
    m = len(c['A'])
    cols = []
    for j in range(ne):
        x = [F(1) if q == j else F(0) for q in range(ne)]
        cols.append(x)
    zero = implicit_solution(c, [F(0)] * ne)
    res = []
    sols = [implicit_solution(c, x) for x in cols]
    for k in range(m):
        terms = []
        if zero[k] != 0:
            terms.append({'c': rat(zero[k]), 'mon': []})
        for j in range(ne):
            cf = sols[j][k] - zero[k]
            if cf != 0:
                terms.append({'c': rat(cf), 'mon': [[j, 1]]})
        res.append(terms)
    return res


def flat_layout(md):
    """Global output layout: offsets of every output block (component order), then one pseudo
    IVC block per unconnected (auto-IVC) input."""
    off = {}
    n = 0
    aoff = {}
    for k, cn in enumerate(md['conns']):
        if cn['src'] is None:
            ci, iname = cn['tgt']
            idef = [i for i in md['comps'][ci]['ins'] if i['name'] == iname][0]
            aoff[k] = n
            n += int(np.prod(idef['shape']))
    for ci, c in enumerate(md['comps']):
        for od in c['outs']:
            off[(ci, od['name'])] = n
            n += int(np.prod(od['shape']))
    return off, aoff, n


def flat_spec(md, positions=None):
    """Spec for the Lean `sweep`/`totals` ops. `positions[k]` optionally overrides the composed
    positions of connection k (e.g. with the ones the Lean chain op returned)."""
    off, aoff, n = flat_layout(md)
    u0 = [F(1)] * n
    for ci, c in enumerate(md['comps']):
        if c['kind'] == 'ivc':
            for od in c['outs']:
                s = off[(ci, od['name'])]
                for e, v in enumerate(od['val']):
                    u0[s + e] = unrat(v)
    for k, cn in enumerate(md['conns']):
        if cn['src'] is None:
            for e, v in enumerate(cn['val']):
                u0[aoff[k] + e] = unrat(v)
    conn_of = {(cn['tgt'][0], cn['tgt'][1]): k for k, cn in enumerate(md['conns'])}
    comps = []
    for ci, c in enumerate(md['comps']):
        if c['kind'] == 'ivc':
            continue
        ins = []
        in_off = []
        for idef in c['ins']:
            k = conn_of[(ci, idef['name'])]
            cn = md['conns'][k]
            in_off.append(len(ins))
            size = int(np.prod(idef['shape']))
            if cn['src'] is None:
                for e in range(size):
                    ins.append([aoff[k] + e, "1/1", "0/1"])
            else:
                sci, soname = cn['src']
                sod = [o for o in md['comps'][sci]['outs'] if o['name'] == soname][0]
                pos = positions[k] if positions is not None and k in positions \
                    else np_positions(sod['shape'], cn['chain'])[0]
                fac, offs = unit_conv(sod['units'], idef['units'])
                base = off[(sci, soname)]
                for q in pos:
                    ins.append([base + q, rat(fac), rat(offs)])
        elem_var = [in_off[j] + e for (j, e) in c['in_elems']]
        polys = []
        if c['kind'] == 'implicit':
            for terms in implicit_solution_terms(c):
                polys.append(terms_to_expr(terms, elem_var))
        else:
            for od in c['outs']:
                for terms in c['poly'][od['name']]:
                    polys.append(terms_to_expr(terms, elem_var))
        start = off[(ci, c['outs'][0]['name'])]
        comps.append({'ci': ci, 'path': comp_path(c), 'start': start, 'len': len(polys),
                      'ins': ins, 'polys': polys,
                      'in_slices': [[idef['name'], in_off[j], int(np.prod(idef['shape']))]
                                    for j, idef in enumerate(c['ins'])]})
    return {'n': n, 'u0': [rat(v) for v in u0], 'comps': comps}


# ------------------------------------------------------------------------------------------------
# design variables / responses and the totals spec

def _rand_scaling(rng):
    k = rng.choice(['none', 'none', 'scaler', 'scaler_adder', 'ref', 'ref_ref0'])
    POW = [F(1, 4), F(1, 2), F(2), F(4), F(-1), F(-2), F(8)]
    sc = {}
    if k in ('scaler', 'scaler_adder'):
        sc['scaler'] = rat(rng.choice(POW))
    if k == 'scaler_adder':
        sc['adder'] = rat(F(rng.randint(-8, 8), 2))
    if k == 'ref':
        sc['ref'] = rat(rng.choice(POW))
    if k == 'ref_ref0':
        r0 = F(rng.randint(-8, 8), 2)
        sc['ref0'] = rat(r0)
        sc['ref'] = rat(r0 + rng.choice(POW))
    return sc


def scaling_to_scaler(sc):
    """(scaler, adder) as Fractions: v_driver = (v + adder) * scaler."""
    if 'ref' in sc:
        ref = unrat(sc['ref'])
        ref0 = unrat(sc.get('ref0', '0/1'))
        return 1 / (ref - ref0), -ref0
    return unrat(sc.get('scaler', '1/1')), unrat(sc.get('adder', '0/1'))


def gen_voi(rng, md, units=True, scaling=True):
    """Random design variables (IVC outputs) and responses (explicit outputs)."""
    ivc_outs = [(ci, od) for ci, c in enumerate(md['comps']) if c['kind'] == 'ivc' for od in c['outs']]
    exp_outs = [(ci, od) for ci, c in enumerate(md['comps']) if c['kind'] != 'ivc'
                for od in c['outs']]
    rng.shuffle(ivc_outs)
    rng.shuffle(exp_outs)
    dvs, resps = [], []

    def pick_idx(shape):
        size = int(np.prod(shape))
        r = rng.random()
        if r < 0.4 or size == 1:
            return None
        k = rng.randint(1, min(size, 3))
        return sorted(rng.sample(range(size), k)) if rng.random() < 0.5 else \
            rng.sample(range(size), k)
    for ci, od in ivc_outs[:rng.randint(1, 2)]:
        d = {'ci': ci, 'oname': od['name'], 'indices': pick_idx(od['shape']),
             'units': compatible_units(rng, od['units']) if units and rng.random() < 0.4 else None,
             'scaling': _rand_scaling(rng) if scaling else {}}
        dvs.append(d)
    for ci, od in exp_outs[:rng.randint(1, 3)]:
        d = {'ci': ci, 'oname': od['name'], 'indices': pick_idx(od['shape']),
             'units': compatible_units(rng, od['units']) if units and rng.random() < 0.4 else None,
             'scaling': _rand_scaling(rng) if scaling else {}}
        resps.append(d)
    if md.get('resp_chain'):
        need = [tuple(x) for x in md['resp_chain']]
        resps = [r for r in resps if (r['ci'], r['oname']) not in need][:1]
        for ci, oname in need:
            resps.append({'ci': ci, 'oname': oname, 'indices': None, 'units': None,
                          'scaling': _rand_scaling(rng) if scaling and rng.random() < 0.5 else {}})
    return {'desvars': dvs, 'responses': resps}


def voi_positions(md, v):
    c = md['comps'][v['ci']]
    od = [o for o in c['outs'] if o['name'] == v['oname']][0]
    size = int(np.prod(od['shape']))
    return list(range(size)) if v['indices'] is None else list(v['indices']), od


def voi_scaler(md, v):
    """total multiplicative factor d(driver value)/d(model value) and the unit factor alone."""
    pos, od = voi_positions(md, v)
    fac, off = unit_conv(od['units'], v['units']) if v['units'] else (F(1), F(0))
    s, a = scaling_to_scaler(v['scaling'])
    return fac * s, fac


def add_voi(p, md, voi):
    """Declare the design variables and responses on the real model."""
    model = p.model
    for kind, lst in (('dv', voi['desvars']), ('con', voi['responses'])):
        for v in lst:
            name = out_root_name(md, v['ci'], v['oname'])
            kw = {}
            if v['indices'] is not None:
                kw['indices'] = list(v['indices'])
                kw['flat_indices'] = True
            if v['units']:
                kw['units'] = v['units']
            for k, val in v['scaling'].items():
                kw[k] = float(unrat(val))
            if kind == 'dv':
                model.add_design_var(name, **kw)
            else:
                model.add_constraint(name, lower=-1e30, upper=1e30, **kw)
            v['name'] = name


def exact_totals(md, voi):
    """Exact Jacobian d(responses)/d(desvars) in model units by dual-number propagation
    (Fractions), rows/cols in declaration order with indices applied."""
    cols = []
    for v in voi['desvars']:
        pos, od = voi_positions(md, v)
        key = comp_path(md['comps'][v['ci']]) + '.' + v['oname']
        for q in pos:
            ov = {key: [DualF(unrat(x), 1 if e == q else 0) for e, x in enumerate(od['val'])]}
            outs, ins = exact_state(md, ov)
            col = []
            for r in voi['responses']:
                rpos, rod = voi_positions(md, r)
                rkey = comp_path(md['comps'][r['ci']]) + '.' + r['oname']
                for t in rpos:
                    x = outs[rkey][t]
                    col.append(x.du if isinstance(x, DualF) else F(0))
            cols.append(col)
    nrows = len(cols[0]) if cols else 0
    return [[cols[l][i] for l in range(len(cols))] for i in range(nrows)]


def totals_spec(md, voi):
    """Wire format of the Lean `totals` op."""
    off, aoff, n = flat_layout(md)
    spec = flat_spec(md)
    outs, ins = exact_state(md)
    # parameters: one per design-variable element
    param_of = {}
    xvals = []
    for v in voi['desvars']:
        pos, od = voi_positions(md, v)
        base = off[(v['ci'], v['oname'])]
        for q in pos:
            if base + q not in param_of:
                param_of[base + q] = len(xvals)
                xvals.append(unrat(od['val'][q]))
    L = len(xvals)
    u = [None] * n
    for ci, c in enumerate(md['comps']):
        for od in c['outs']:
            key = comp_path(c) + '.' + od['name']
            for e, x in enumerate(outs[key]):
                u[off[(ci, od['name'])] + e] = x
    for k, cn in enumerate(md['conns']):
        if cn['src'] is None:
            for e, x in enumerate(cn['val']):
                u[aoff[k] + e] = unrat(x)
    resid = [None] * n
    for k in range(n):
        if k in param_of:
            resid[k] = ["+", ["v", k], ["-", ["v", n + param_of[k]]]]
    ins_all = []
    for c in spec['comps']:
        base_in = n + L + len(ins_all)

        def shift(e):
            if e[0] == 'v':
                return ["v", base_in + e[1]]
            if e[0] == 'c':
                return e
            return [e[0]] + [shift(a) for a in e[1:]]
        ins_all.extend(c['ins'])
        for t, poly in enumerate(c['polys']):
            resid[c['start'] + t] = ["+", ["v", c['start'] + t], ["-", shift(poly)]]
    for k in range(n):
        if resid[k] is None:
            resid[k] = ["+", ["v", k], ["c", rat(-u[k])]]
    of, wrt = [], []
    for r in voi['responses']:
        pos, od = voi_positions(md, r)
        of.extend(off[(r['ci'], r['oname'])] + q for q in pos)
    for v in voi['desvars']:
        pos, od = voi_positions(md, v)
        wrt.extend(param_of[off[(v['ci'], v['oname'])] + q] for q in pos)
    return {'op': 'totals', 'n': n, 'L': L, 'ins': ins_all, 'resid': resid,
            'env': [rat(x) for x in u] + [rat(x) for x in xvals], 'of': of, 'wrt': wrt}


_COND_CACHE = {}


def system_cond(md, key=None):
    """2-norm condition number (doubles) of the exact linearised system dR/du.  Chained polynomial
    components with unit conversions can make it astronomically large; what a solver of the real
    code can deliver is then bounded by cond x eps."""
    if key is not None and key in _COND_CACHE:
        return _COND_CACHE[key]
    try:
        A = np.array([[float(x) for x in r] for r in exact_system_matrix(md)])
        c = float(np.linalg.cond(A)) if A.size else 1.0
    except Exception:
        c = 1.0
    if not np.isfinite(c):
        c = 1e300
    if key is not None:
        _COND_CACHE[key] = c
    return c


def exact_system_matrix(md):
    """A = dR/du at the exact state (exact Fractions), n x n over the global output layout."""
    return _linearised(md)[0]


def _linearised(md):
    """(A, off, n): exact partial-derivative matrix of the flat residual system."""
    off, aoff, n = flat_layout(md)
    spec = flat_spec(md)
    outs, ins = exact_state(md)
    u = [None] * n
    for ci, c in enumerate(md['comps']):
        for od in c['outs']:
            for e, x in enumerate(outs[comp_path(c) + '.' + od['name']]):
                u[off[(ci, od['name'])] + e] = x
    for k, cn in enumerate(md['conns']):
        if cn['src'] is None:
            for e, x in enumerate(cn['val']):
                u[aoff[k] + e] = unrat(x)

    def ev(e, xs):
        t = e[0]
        if t == 'c':
            return unrat(e[1])
        if t == 'v':
            return xs[e[1]]
        if t == '+':
            return ev(e[1], xs) + ev(e[2], xs)
        if t == '*':
            return ev(e[1], xs) * ev(e[2], xs)
        return -ev(e[1], xs)

    def resid(uu):
        r = [uu[k] - u[k] for k in range(n)]       # default: pinned (independent variables)
        for c in spec['comps']:
            xs = [(uu[src] + unrat(o)) * unrat(f) for src, f, o in c['ins']]
            for t, poly in enumerate(c['polys']):
                r[c['start'] + t] = uu[c['start'] + t] - ev(poly, xs)
        return r
    r0 = resid(u)
    if any((x.re if isinstance(x, DualF) else x) != 0 for x in r0):
        raise RuntimeError('exact state is not a zero of the residuals')
    A = [[F(0)] * n for _ in range(n)]
    for j in range(n):
        uu = list(u)
        uu[j] = DualF(u[j], 1)
        rj = resid(uu)
        for k in range(n):
            A[k][j] = rj[k].du if isinstance(rj[k], DualF) else F(0)
    return A, off, n


def exact_totals_linsolve(md, voi):
    """Exact Jacobian d(responses)/d(desvars) by linearising the flat residual system at the exact
    state and solving exactly in Fractions (works for cyclic models; independent of Lean)."""
    A, off, n = _linearised(md)
    cols_pos = []
    for v in voi['desvars']:
        pos, od = voi_positions(md, v)
        cols_pos.extend(off[(v['ci'], v['oname'])] + q for q in pos)
    rows_pos = []
    for r in voi['responses']:
        pos, od = voi_positions(md, r)
        rows_pos.extend(off[(r['ci'], r['oname'])] + q for q in pos)
    # residual of a design variable element k is u_k - x  =>  B = -e_k
    Bm = [[F(1) if k == q else F(0) for q in cols_pos] for k in range(n)]
    X = frac_solve(A, Bm)
    if X is None:
        raise RuntimeError('singular')
    return [[X[i][l] for l in range(len(cols_pos))] for i in rows_pos]
