"""C29 — wrapped input files parse back to the values written (openmdao/utils/file_wrap.py).

Case format (JSON):
  dg / dp   delimiter string given to InputFileGenerator / FileParser.set_delimiters (None: the
            class default, " " resp. " \\t")
  lines     the template, one string per line (with its "\\n")
  gen       generator steps   {"s":"reset"} | {"s":"mark","a":..,"occ":..} |
            {"s":"var","v":VAL,"row":..,"field":..} |
            {"s":"arr","vals":[VAL..],"rs","fs","fe","re":int|None,"sep":str|None,"np":bool} |
            {"s":"arr2","vals":[[VAL..]..],"rs","re","fs","fe"}
  par       parser steps      reset | mark | {"s":"var","row","field"} |
            {"s":"arr","rs","fs","re","fe"} | {"s":"arr2","rs","fs","re","fe"} |
            {"s":"key","key","field","occ","off"}
  kind      "valid": built from intended cells, the direct oracle applies;  "free": arbitrary steps,
            only model and implementation are compared
  written   {"row,field": VAL}  cells (0-based absolute row, 1-based field) and the value written there
  reads     {"<index of parser step>": [[row, field], ...]}  cells a read step is meant to return
  special   which special value class the case contains (for known-finding signatures)
VAL: {"t":"i","v":"12"} | {"t":"f","x":"nan"|"inf"|"-inf"|float.hex()} | {"t":"s","v":"abc"}
"""
import contextlib
import io
import math
import os
import re
import warnings
from decimal import Context, Decimal, ROUND_HALF_EVEN
from fractions import Fraction

import numpy as np

from common import Property, Infra, rat

warnings.filterwarnings('ignore', category=DeprecationWarning)

ANCHORS = ['ANCH', 'KEY', 'STRESS', 'LOAD']
WORDS = ['alpha', 'beta', 'x1', 'y_2', 'CASE', 'mode', 'T', 'F', 'value', 'q', 'Hz', 'DISP', 'k9',
         'abc', 'zeta']
NUMPREFIX = ['3abc', '1.5x', '2e', '7up', '1e5.5', '+4x', '0x10']
SPECPREFIX = ['Info', 'nano', 'Infinity', 'NaNs', '-Inf_', 'nanometer', 'Inflow']
DELIMS = [None, None, ' \t', ' \t', ', ', ', ', ',', ';', '|', '=: ']
CTX16 = Context(prec=16, rounding=ROUND_HALF_EVEN)


# ------------------------------------------------------------------------------------------------
# values

def enc(v):
    """Canonical encoding of a Python / numpy scalar."""
    if isinstance(v, (bool, np.bool_)):
        return {'t': 's', 'v': str(v)}
    if isinstance(v, (int, np.integer)):
        return {'t': 'i', 'v': str(int(v))}
    if isinstance(v, (float, np.floating)):
        v = float(v)
        if v != v:
            return {'t': 'f', 'x': 'nan'}
        if v in (math.inf, -math.inf):
            return {'t': 'f', 'x': 'inf' if v > 0 else '-inf'}
        return {'t': 'f', 'x': v.hex()}
    if isinstance(v, str):
        return {'t': 's', 'v': str(v)}
    return {'t': '?', 'v': repr(v)}


def dec(e):
    if e['t'] == 'i':
        return int(e['v'])
    if e['t'] == 's':
        return e['v']
    x = e['x']
    if x in ('nan', 'inf', '-inf'):
        return float(x)
    return float.fromhex(x)


def wire(e):
    """Value as the Lean driver wants it."""
    if e['t'] != 'f':
        return e
    x = e['x']
    if x in ('nan', 'inf', '-inf'):
        return {'t': 'f', 'k': x, 'str': str(float(x))}
    v = float.fromhex(x)
    return {'t': 'f', 'k': 'fin', 'q': rat(v), 'nz': v == 0 and math.copysign(1, v) < 0,
            'str': str(v)}


def r16(v):
    """A finite number rounded to 16 significant digits (exact decimal arithmetic)."""
    return CTX16.create_decimal(Decimal(v) if not isinstance(v, Fraction) else
                                Decimal(v.numerator) / Decimal(v.denominator))


def same_value(exp, got, coerced=False):
    """The property's notion of 'the same value' on canonical encodings: ints/strings equal,
    floats equal to 16 significant digits (nan = nan, inf = inf); an int may come back as an
    equal float (numpy arrays).  `coerced`: the value is an element of a string/object array numpy
    built from mixed fields, where a number appears as its text."""
    if exp['t'] == 's':
        return got['t'] == 's' and got['v'] == exp['v']
    if got['t'] == 's':
        if not coerced:
            return False
        try:
            g = float(got['v'])
        except ValueError:
            return False
    else:
        g = dec(got)
    e = dec(exp)
    if isinstance(e, float) and e != e:
        return isinstance(g, float) and g != g
    if isinstance(g, float) and (g != g):
        return False
    if isinstance(e, float) and math.isinf(e) or isinstance(g, float) and math.isinf(g):
        return e == g
    if exp['t'] == 'i' and got['t'] == 'i':
        return e == g
    if exp['t'] == 'f' and float(e) == int(e):
        return Fraction(e) == Fraction(g)       # '%.1f' is exact
    return r16(e) == r16(g)                     # (an int stored in a float array: 16 digits)


def value_kind(e):
    if e['t'] == 'i':
        return 'int'
    if e['t'] == 's':
        return 'str'
    if e['x'] == 'nan':
        return 'nan'
    if e['x'] in ('inf', '-inf'):
        return 'inf'
    v = float.fromhex(e['x'])
    if v == int(v):
        return 'float_int'
    s = '%.16g' % v
    if 'e' in s:
        return 'float_exp'
    return 'float'


def rnd_float(rng):
    k = rng.randrange(12)
    if k == 0:
        return rng.choice([0.0, -0.0, 1.0, -1.0, 2.0 ** 53, -2.0 ** 70, 1e22, 1e300, -1e15])
    if k == 1:      # subnormals and extremes
        return rng.choice([5e-324, -5e-324, 2.2250738585072014e-308, 1.7976931348623157e308,
                           -1.7976931348623157e308, 2.225073858507201e-308, 1e-310])
    if k == 2:      # 17 significant digits needed
        return rng.choice([0.1 + 0.2, 1 / 3, 2 / 3, 1.0000000000000002, 0.9999999999999999,
                           123456.78901234567, 9007199254740993.0 / 4, math.pi, -math.e * 1e-7])
    if k == 3:      # short positive decimals in exponent notation
        return rng.randint(1, 9) * 10.0 ** (-rng.randint(5, 30))
    if k == 4:
        return rng.choice([-1, 1]) * rng.random() * 10.0 ** rng.randint(-320, 308)
    if k == 5:
        return float(rng.randint(-10 ** 6, 10 ** 6))
    if k == 6:
        return rng.randint(-10 ** 6, 10 ** 6) / rng.choice([2, 4, 8, 1024, 10, 100, 1000])
    if k == 7:
        return rng.choice([-1, 1]) * rng.random() * 10.0 ** rng.randint(-6, 17)
    if k == 8:      # negative with digits after the point, small
        return -(1 + rng.random()) * 10.0 ** (-rng.randint(5, 20))
    return rng.uniform(-1000, 1000)


def is_neg_mixed(v):
    """negative float whose text ('%.16g' in the template, str() beyond it) is -<digits>e<exp>"""
    if not (v < 0) or v == int(v):
        return False
    return any('e' in s and '.' not in s for s in ('%.16g' % v, repr(v)))


def rnd_value(rng, kind=None):
    kind = kind or rng.choice(['f', 'f', 'f', 'i', 's'])
    if kind == 'f':
        while True:
            v = rnd_float(rng)
            if not is_neg_mixed(v):
                return enc(v)
    if kind == 'i':
        return enc(rng.choice([0, 1, -1, 7, 42, -305, 10 ** 9, -2 ** 40, rng.randint(-99999, 99999),
                               2 ** 62, 10 ** 30 if rng.random() < 0.3 else 5]))
    return enc(rng.choice(WORDS))


def special_value(rng, special):
    if special == 'nan':
        return enc(math.nan)
    if special == 'inf':
        return enc(rng.choice([math.inf, -math.inf]))
    if special == 'neg_mixed_exp':
        return enc(-rng.randint(1, 9) * 10.0 ** (-rng.randint(5, 40)))
    if special == 'numprefix':
        return enc(rng.choice(NUMPREFIX))
    if special == 'specprefix':
        return enc(rng.choice(SPECPREFIX))
    raise ValueError(special)


# ------------------------------------------------------------------------------------------------
# templates

def rnd_token(rng):
    k = rng.randrange(8)
    if k < 3:
        return rng.choice(WORDS)
    if k < 5:
        return rng.choice(['0', '1', '42', '-7', '+3', '100', '000', '99999'])
    if k < 7:
        return rng.choice(['0.0', '1.5', '-2.25e3', '1e5', '7.', '.5', '3.D2', '10.1', '-0.0',
                           '2.654e5', '1.3334E+7'])
    return rng.choice(['NaN', 'Inf', 'nan'])


def sep_pool(dg):
    d = ' ' if dg is None else dg
    if d in (' ',):
        return [' ', ' ', '  ', '   ']
    if d == ' \t':
        return [' ', '\t', '  ', ' \t', '\t\t']
    if d == ', ':
        return [', ', ',', ' ', ',  ', ' , ']
    if d == '=: ':
        return [' ', '=', ': ', ' = ', ':']
    return [d, d, d + d]


def build_template(rng, dg, nlines=None):
    """Returns (lines, toks) where toks[r] is the list of field texts of line r."""
    pool = sep_pool(dg)
    ws_ok = (dg is None) or (' ' in dg)
    nlines = nlines or rng.randint(2, 9)
    lines, toks = [], []
    anchors = rng.sample(ANCHORS, rng.randint(1, 3))
    for r in range(nlines):
        if rng.random() < 0.06:
            lines.append('\n')
            toks.append([])
            continue
        n = rng.randint(1, 7)
        tk = [rnd_token(rng) for _ in range(n)]
        if rng.random() < 0.45:       # an anchor word; each line holds at most one anchor word
            tk[0 if rng.random() < 0.7 else rng.randrange(n)] = rng.choice(anchors)
        s = ''
        if ws_ok and rng.random() < 0.3:
            s += rng.choice(pool) if rng.random() < 0.5 else ' ' * rng.randint(1, 4)
        for k, t in enumerate(tk):
            if k:
                s += rng.choice(pool)
            s += t
        if rng.random() < 0.2:
            s += rng.choice(pool)
        lines.append(s + '\n')
        toks.append(tk)
    if rng.random() < 0.25 and toks[-1]:
        lines[-1] = lines[-1].rstrip('\n')
    return lines, toks


def has_anchor(tk):
    return [a for a in ANCHORS if any(a in t for t in tk)]


# reference for the documented anchor semantics, used only in situations where the documented
# and the coded behaviour cannot differ (see `cases`): n-th line containing the text
def doc_mark(toks, cur, anchored, a, occ):
    hit = [any(a in t for t in tk) for tk in toks]
    if occ > 0:
        rows = [r for r in range(cur + (1 if anchored else 0), len(toks)) if hit[r]]
        return rows[occ - 1] if occ <= len(rows) else None
    rows = [r for r in range(len(toks) - 1, -1, -1) if hit[r]]
    return rows[-occ - 1] if -occ <= len(rows) else None


# ---- navigation templates: the anchor text repeats within a line and inside other words ----------
NAV_BASE = ['GRID', 'KEY', 'LOAD']
NAV_SHORT = {'GRID': ['ID', 'RI', 'GR'], 'KEY': ['K', 'EY'], 'LOAD': ['AD', 'LO']}


def nav_carriers(w):
    return [w, w, w, w + 'S', 'x' + w, w + w, w + '2', w + '_' + w]


def build_nav_template(rng, dg):
    """Lines in which a keyword occurs several times (as a field of its own, repeated, or inside
    another word). Returns (lines, toks, words used)."""
    pool = sep_pool(dg)
    ws_ok = (dg is None) or (' ' in dg)
    words = rng.sample(NAV_BASE, rng.randint(1, 2))
    lines, toks = [], []
    for r in range(rng.randint(3, 8)):
        n = rng.randint(2, 8)
        tk = [rnd_token(rng) for _ in range(n)]
        if rng.random() < 0.7:
            w = rng.choice(words)
            reps = rng.choice([1, 2, 2, 2, 3])
            for pos in rng.sample(range(n), min(reps, n - 1)):
                tk[pos] = rng.choice(nav_carriers(w))
            if rng.random() < 0.6:
                tk[0] = w
        s = ''
        if ws_ok and rng.random() < 0.2:
            s += ' ' * rng.randint(1, 3)
        for k, t in enumerate(tk):
            if k:
                s += rng.choice(pool)
            s += t
        lines.append(s + '\n')
        toks.append(tk)
    if rng.random() < 0.2:
        lines[-1] = lines[-1].rstrip('\n')
    return lines, toks, words


def code_mark(lines, cur, anchored, a, occ):
    """Row a `mark_anchor(a, occ)` call selects (None: not found): the n-th line containing the text,
    counted forward from the current row (from the row after it when a previous anchor is set) or
    backward from the end of the file (from the line before the last one when a previous anchor is
    set) — the behaviour of both classes characterised by C29_anchor_forward / C29_anchor_backward."""
    hit = [a in ln for ln in lines]
    if occ > 0:
        rows = [r for r in range(cur + (1 if anchored else 0), len(lines)) if hit[r]]
        return rows[occ - 1] if occ <= len(rows) else None
    last = len(lines) - (1 if anchored else 0)
    rows = [r for r in range(last - 1, -1, -1) if hit[r]]
    return rows[-occ - 1] if -occ <= len(rows) else None


class C29(Property):
    pid = 'C29'
    level = 'proof'
    workers = 4
    required_theorems = [
        'C29_join_segs', 'C29_segs_join', 'C29_replace_var_spec', 'C29_replace_array_spec',
        'C29_var_roundtrip', 'C29_var_frame', 'C29_var_layout',
        'C29_array_roundtrip', 'C29_array_roundtrip_exact', 'C29_array_frame', 'C29_array_layout',
        'C29_array_rows_roundtrip', 'C29_overlay_exact',
        'C29_2d_write', 'C29_2d_roundtrip',
        'C29_anchor_forward', 'C29_anchor_backward', 'C29_anchor_stable', 'C29_anchored_roundtrip',
        'C29_format_total_partial', 'C29_format_total_fails_inf', 'C29_format_total_fails_nan',
        'C29_transfer_nonfinite_raises', 'C29_format_total_fixed', 'C29_special_roundtrip_fixed',
        'C29_neg_inf_sign_lost', 'C29_overflow_drops_newline', 'C29_overflow_keeps_newline_fixed',
    ]
    rule = ("cases: random templates (1-9 lines, 1-7 fields per line: words, ints, floats incl. Fortran 'D' "
            "exponents, NaN/Inf, anchor words; 10 delimiter configurations incl. the class defaults; "
            "indented / trailing / doubled separators, blank lines, missing final newline), 1-3 writes "
            "(transfer_var, 1-D arrays on one or several rows incl. short and overflowing arrays, 2-D "
            "arrays; numpy arrays and lists) each after an anchor prelude (none / reset / mark n-th forward "
            "or backward, also continued from a previous anchor), values: ints (up to 10**30), floats "
            "(+-0.0, subnormals, 17-digit doubles, +-1.8e308, short exponent forms, nan, +-inf), words; the "
            "real InputFileGenerator writes a file in a temp dir and the real FileParser reads it back "
            "with the mirrored calls (transfer_var / transfer_keyvar / transfer_array / transfer_2Darray). "
            "'valid' cases carry the intended cells and are judged by the direct oracle (value read = "
            "value written to 16 significant digits; every other field, the number of lines and of "
            "fields per line unchanged, all through the real parser); 'free' cases (arbitrary "
            "coordinates, occurrences 0 / out of range, negative rows, empty ranges, error branches) are "
            "compared with the Lean model only; one 'table' case ties the special-token table; "
            "'navigation' cases (60 at the head of the quick stream, 8% afterwards) use templates in "
            "which the anchor text occurs several times within a line and inside other words, and "
            "replay on both tools chains of 1-3 forward/backward mark_anchor calls with occurrence "
            "counts, mostly without reset_anchor, each followed by a write/read relative to the anchor. Every "
            "case is also run through the Lean model: generated file text compared byte for byte, "
            "every value read compared, exceptions compared as an enum, _getformat compared on every "
            "float. Non-trivial: valid case with at least one intended cell, or free case whose output "
            "differs from the template; distinct by canonical case encoding.")
    assumptions = [
        "delimiter strings contain no regex-special characters and no newline; not the 'columns' mode; "
        "no comment characters; ASCII text without carriage returns",
        "both tools get the same delimiter characters (or both their defaults with space-separated "
        "templates)",
        "every field of the template is one pyparsing token (checked on every generated file; when a "
        "written value breaks this the reads are not compared with the model, the oracle still applies)",
        "floats are compared to 16 significant digits (exact decimal rounding of both values), "
        "integer-valued floats and ints exactly; an int stored by numpy in a float array to 16 digits",
        "anchor texts are non-empty and are neither written nor overwritten by the values of valid cases",
        "which variant of the code is installed (formatter total on floats / overflow keeps the line "
        "ending / -Inf keeps its sign) is probed at start-up and selects the corresponding flags of the "
        "Lean model; the direct oracle does not depend on it",
    ]
    level_text = ("Field location logic of InputFileGenerator and FileParser (regex tokenisation, re.sub "
                  "counting of _SubHelper, rows / negative indices, anchors, array ranges over one or several "
                  "rows, 2-D arrays) is modelled in Lean on lists of characters. Proved for every line, "
                  "delimiter set, field, row range and value: what the parser reads at the written location "
                  "is exactly the text written; every other cell, all separator runs, the number of lines "
                  "and of fields per line are unchanged; anchor searches select exactly the n-th line from "
                  "the start / end (with the code's two skipping rules) and depend on the file only through "
                  "which lines contain the anchor; _getformat is total on finite floats and raises for "
                  "nan/inf (counterexamples), the repaired formatter is total. The model is tied to the real "
                  "classes by byte-exact comparison of generated files and of every value read back.")
    level_note = ("partial: Python's %-formatting, str(float), float() and the pyparsing grammar are runtime "
                  "components: the contract `parse (fmt v) = v` and `fmt v` being one field is evaluated per "
                  "case by the direct oracle; the Lean reference of %.16g/%.1f is checked against CPython on "
                  "every float. transfer_keyvar, the overflow branch of transfer_array, slices with negative "
                  "bounds and numpy's array coercions are covered by model + differential runs only.")
    technique = "Lean 4 proof over lists of characters + exact differential correspondence on files"
    trusted_extra = ["CPython %-formatting, str(float), float(); pyparsing tokenisation of one field; "
                     "numpy array construction in FileParser.transfer_array/transfer_2Darray"]

    # -------------------------------------------------------------------------------------------
    # which variant of the code is installed (the Lean model has both; see `fixed` / `keepEol`)
    variant = {'fixed': False, 'keep_eol': False, 'sign_fixed': False}

    def setup(self, tier):
        from openmdao.utils.file_wrap import InputFileGenerator
        with warnings.catch_warnings():
            warnings.simplefilter('ignore')
            g = InputFileGenerator()
            g._data = ["a 1\n", "b 2\n"]
            try:
                g.transfer_var(math.nan, 0, 2)
                g.transfer_var(math.inf, 1, 2)
                self.variant['fixed'] = True
            except (ValueError, OverflowError):
                self.variant['fixed'] = False
            g._data = ["a 1\n", "b 2\n"]
            g.transfer_array([5, 6], 0, 2, 2, sep=' ')
            self.variant['keep_eol'] = g._data[0].endswith('\n')
            from openmdao.utils.file_wrap import FileParser
            r = list(FileParser()._parse_line().parseString('-Inf'))
            self.variant['sign_fixed'] = (len(r) == 1 and r[0] == -math.inf)

    # -------------------------------------------------------------------------------------------
    # generator
    def table_case(self):
        """The special tokens of FileParser._reset_tokens (read from the live source) and a few
        ordinary ones, to tie `parseSpecial` of the model to the real token converters."""
        import inspect
        from openmdao.utils.file_wrap import FileParser
        toks = []
        try:
            src = inspect.getsource(FileParser._reset_tokens)
            for m in re.finditer(r'oneOf\("([^"]+)"\)', src):
                toks += m.group(1).split()
        except (OSError, TypeError):
            pass
        toks = [t for t in toks if t not in ('+', '-')]
        toks += ['Inf', '-Inf', 'NaN', 'nan', 'inf', '-inf', 'abc', '1.5', 'INF', 'NAN', '+Inf']
        return {'kind': 'table', 'tokens': sorted(set(toks))}

    def cases(self, rng, tier):
        n = 1200 if tier == 'quick' else 40000
        yield self.table_case()
        # navigation cases first: repeated anchors, chains of mark_anchor calls without reset
        for k in range(60 if tier == 'quick' else 600):
            c = self.nav_case(rng)
            if c is not None:
                yield c
        for k in range(n):
            r = rng.random()
            if r < 0.08:
                c = self.nav_case(rng)
            elif r < 0.72:
                c = self.valid_case(rng)
            else:
                c = self.free_case(rng)
            if c is not None:
                yield c

    def nav_case(self, rng):
        """Generator and parser replay the same chain of forward / backward mark_anchor calls (with
        occurrence counts, mostly without reset_anchor) over a template in which the anchor text
        repeats within lines and inside other words; after every chain one value (or a one-row
        array) is written relative to the anchor and read back from the same place."""
        dg = rng.choice(DELIMS)
        lines, toks, words = build_nav_template(rng, dg)
        nl = len(lines)
        case = {'kind': 'valid', 'dg': dg, 'dp': dg, 'lines': lines, 'gen': [], 'par': [],
                'written': {}, 'reads': {}, 'special': None, 'extra': {}, 'nav': True}
        anchors = list(words)
        for w in words:
            anchors += NAV_SHORT[w]
        cur, anchored = 0, False
        used = set()

        def plain(t):
            return not any(w in t for w in NAV_BASE)

        for _ in range(rng.randint(2, 4)):
            steps = []
            c2, a2 = cur, anchored
            if rng.random() < 0.2:
                steps.append({'s': 'reset'})
                c2, a2 = 0, False
            for _ in range(rng.choice([1, 1, 2, 2, 3])):
                for _try in range(6):
                    a = rng.choice(anchors)
                    occ = rng.choice([1, 1, 1, 1, 2, 2, 3, -1, -1, -2])
                    row = code_mark(lines, c2, a2, a, occ)
                    if row is not None:
                        steps.append({'s': 'mark', 'a': a, 'occ': occ})
                        c2, a2 = row, True
                        break
            if not any(st['s'] == 'mark' for st in steps):
                continue
            # a target relative to the anchor row
            cand = [(r, f) for r in range(nl) for f in range(1, len(toks[r]) + 1)
                    if plain(toks[r][f - 1]) and (r, f) not in used]
            if not cand:
                break
            near = [c for c in cand if abs(c[0] - c2) <= 1]
            r, f = rng.choice(near if near and rng.random() < 0.7 else cand)
            if rng.random() < 0.75:
                v = rnd_value(rng)
                g = {'s': 'var', 'v': v, 'row': r - c2, 'field': f}
                p = {'s': 'var', 'row': r - c2, 'field': f}
                cells = [(r, f, v)]
            else:
                f2 = f
                while f2 + 1 <= len(toks[r]) and plain(toks[r][f2]) and (r, f2 + 1) not in used \
                        and rng.random() < 0.6:
                    f2 += 1
                vk = rng.choice(['f', 'i', 's'])
                vals = [rnd_value(rng, vk) for _ in range(f, f2 + 1)]
                d = ' ' if dg is None else dg
                g = {'s': 'arr', 'vals': vals, 'rs': r - c2, 'fs': f, 'fe': f2, 're': None,
                     'sep': d[0], 'np': rng.random() < 0.7}
                p = {'s': 'arr', 'rs': r - c2, 'fs': f, 're': None, 'fe': f2}
                cells = [(r, f + k, vals[k]) for k in range(len(vals))]
            case['gen'] += steps + [g]
            case['par'] += steps + [p]
            case['reads'][str(len(case['par']) - 1)] = [[q, h] for q, h, _ in cells]
            for q, h, v in cells:
                case['written']['%d,%d' % (q, h)] = v
                used.add((q, h))
            cur, anchored = c2, a2
        if not case['written']:
            return None
        return case

    def prelude(self, rng, toks, cur, anchored):
        """An anchor prelude whose documented meaning is unambiguous. Returns (steps, cur, anchored)."""
        present = sorted({a for tk in toks for a in has_anchor(tk)})
        r = rng.random()
        if not present or r < 0.15:
            if rng.random() < 0.5:
                return [{'s': 'reset'}], 0, False
            return [], cur, anchored
        a = rng.choice(present)
        steps = []
        if anchored and rng.random() < 0.35:
            # continue from the current anchor, forward only
            occ = rng.choice([1, 1, 2])
            row = doc_mark(toks, cur, True, a, occ)
            if row is not None:
                return [{'s': 'mark', 'a': a, 'occ': occ}], row, True
        steps.append({'s': 'reset'})
        nhit = sum(1 for tk in toks if any(a in t for t in tk))
        occ = rng.randint(1, nhit)
        if rng.random() < 0.35:
            occ = -occ
        row = doc_mark(toks, 0, False, a, occ)
        steps.append({'s': 'mark', 'a': a, 'occ': occ})
        return steps, row, True

    def valid_case(self, rng):
        dg = rng.choice(DELIMS)
        lines, toks = build_template(rng, dg)
        special = rng.choice([None] * 14 + ['nan', 'inf', 'neg_mixed_exp', 'numprefix', 'specprefix',
                                             'overflow_mid', 'overflow_mid'])
        case = {'kind': 'valid', 'dg': dg, 'dp': dg, 'lines': lines, 'gen': [], 'par': [],
                'written': {}, 'reads': {}, 'special': special, 'extra': {}}
        nl = len(lines)
        free_rows = [r for r in range(nl) if toks[r]]
        cur, anchored = 0, False
        special_left = special if special not in (None, 'overflow_mid') else None
        for _ in range(rng.randint(1, 3)):
            if not free_rows:
                break
            cur0, anchored0 = cur, anchored
            steps, cur, anchored = self.prelude(rng, toks, cur0, anchored0)
            kind = rng.choice(['var', 'var', 'arr', 'arr', 'arrm', 'arr2'])
            if special == 'overflow_mid':
                kind = 'arr'

            def cell_ok(r, f):
                return not has_anchor([toks[r][f - 1]])

            def newval(vk=None):
                nonlocal special_left
                if special_left is not None:
                    want = 's' if special_left in ('numprefix', 'specprefix') else 'f'
                    if vk is None or vk == want:
                        v = special_value(rng, special_left)
                        special_left = None
                        return v
                return rnd_value(rng, vk)

            gen_step = par_step = None
            cells = []
            if kind == 'var':
                r = rng.choice(free_rows)
                fl = [f for f in range(1, len(toks[r]) + 1) if cell_ok(r, f)]
                if not fl:
                    cur, anchored = cur0, anchored0
                    continue
                f = rng.choice(fl)
                v = newval()
                gen_step = {'s': 'var', 'v': v, 'row': r - cur, 'field': f}
                par_step = {'s': 'var', 'row': r - cur, 'field': f}
                key = toks[r][0]
                if f > 1 and key in ANCHORS and rng.random() < 0.5:
                    # the same cell through transfer_keyvar: key is the first field of the line
                    rows = [q for q in range(cur, nl) if any(key in t for t in toks[q])]
                    if r in rows and all(key not in t for t in toks[r][1:]):
                        par_step = {'s': 'key', 'key': key, 'field': f - 1,
                                    'occ': rows.index(r) + 1, 'off': 0}
                cells = [(r, f, v)]
                used = [r]
            elif kind == 'arr':
                r = rng.choice(free_rows)
                n = len(toks[r])
                fs = rng.randint(1, n)
                fe = rng.randint(fs, n)
                if any(not cell_ok(r, f) for f in range(fs, fe + 1)):
                    cur, anchored = cur0, anchored0
                    continue
                width = fe - fs + 1
                vk = rng.choice(['f', 'f', 'i', 's'])
                mode = rng.choice(['exact', 'exact', 'exact', 'short', 'over'])
                if special == 'overflow_mid':
                    mode = 'over'
                    if r == nl - 1 or fe != n:
                        cand = [q for q in free_rows if q < nl - 1]
                        if not cand:
                            cur, anchored = cur0, anchored0
                            continue
                        r = rng.choice(cand)
                        n = len(toks[r])
                        fs = rng.randint(1, n)
                        fe = n
                        if any(not cell_ok(r, f) for f in range(fs, fe + 1)):
                            cur, anchored = cur0, anchored0
                            continue
                        width = fe - fs + 1
                if mode == 'over' and special != 'overflow_mid' and (fe != n or r != nl - 1):
                    mode = 'exact'      # appending is only meaningful at the end of the line; the
                    #                     last line is the only one whose newline may be dropped
                nv = width if mode == 'exact' else (rng.randint(0, width - 1) if mode == 'short'
                                                    else width + rng.randint(1, 3))
                vals = [newval(vk) for _ in range(nv)]
                d = ' ' if dg is None else dg
                sep = rng.choice([c for c in d] + ([', '] if d == ', ' else []))
                gen_step = {'s': 'arr', 'vals': vals, 'rs': r - cur, 'fs': fs, 'fe': fe, 're': None,
                            'sep': sep, 'np': rng.random() < 0.7}
                extra = max(0, nv - width)
                par_step = {'s': 'arr', 'rs': r - cur, 'fs': fs, 're': None, 'fe': fe + extra}
                cells = [(r, fs + k, vals[k]) for k in range(nv)]
                if extra:
                    case['extra'][str(r)] = extra
                used = [r]
                readcells = [(r, f) for f in range(fs, fe + extra + 1)]
            elif kind == 'arrm':
                cand = [r for r in free_rows if r + 1 in free_rows]
                if not cand:
                    cur, anchored = cur0, anchored0
                    continue
                r0 = rng.choice(cand)
                r1 = r0 + 1
                if r1 + 1 in free_rows and rng.random() < 0.4:
                    r1 += 1
                fs = rng.randint(1, len(toks[r0]))
                fe = rng.randint(1, len(toks[r1]))
                rc = [(r0, f) for f in range(fs, len(toks[r0]) + 1)]
                for q in range(r0 + 1, r1):
                    rc += [(q, f) for f in range(1, len(toks[q]) + 1)]
                rc += [(r1, f) for f in range(1, fe + 1)]
                if any(not cell_ok(q, f) for q, f in rc):
                    cur, anchored = cur0, anchored0
                    continue
                vk = rng.choice(['f', 'f', 'i', 's'])
                nv = len(rc) if rng.random() < 0.8 else rng.randint(0, len(rc))
                vals = [newval(vk) for _ in range(nv)]
                gen_step = {'s': 'arr', 'vals': vals, 'rs': r0 - cur, 'fs': fs, 'fe': fe,
                            're': r1 - cur, 'sep': None, 'np': rng.random() < 0.7}
                par_step = {'s': 'arr', 'rs': r0 - cur, 'fs': fs, 're': r1 - cur, 'fe': fe}
                cells = [(rc[k][0], rc[k][1], vals[k]) for k in range(nv)]
                used = list(range(r0, r1 + 1))
                readcells = rc
            else:
                cand = [r for r in free_rows if r + 1 in free_rows]
                if not cand:
                    cur, anchored = cur0, anchored0
                    continue
                r0 = rng.choice(cand)
                r1 = r0 + 1
                if r1 + 1 in free_rows and rng.random() < 0.4:
                    r1 += 1
                w = min(len(toks[q]) for q in range(r0, r1 + 1))
                fs = rng.randint(1, w)
                fe = rng.randint(fs, w)
                rc = [(q, f) for q in range(r0, r1 + 1) for f in range(fs, fe + 1)]
                if any(not cell_ok(q, f) for q, f in rc):
                    cur, anchored = cur0, anchored0
                    continue
                vk = rng.choice(['f', 'f', 'i'])
                mat = [[newval(vk) for _ in range(fs, fe + 1)] for _ in range(r0, r1 + 1)]
                gen_step = {'s': 'arr2', 'vals': mat, 'rs': r0 - cur, 're': r1 - cur, 'fs': fs, 'fe': fe}
                par_step = {'s': 'arr2', 'rs': r0 - cur, 'fs': fs, 're': r1 - cur, 'fe': fe}
                cells = [(q, f, mat[q - r0][f - fs]) for q, f in rc]
                used = list(range(r0, r1 + 1))
                readcells = rc
            if kind == 'var':
                readcells = [(cells[0][0], cells[0][1])]
            # 2-D and numeric reads need numeric leftovers; keep it simple: fine, the oracle copes
            case['gen'] += steps + [gen_step]
            case['par'] += steps + [par_step]
            case['reads'][str(len(case['par']) - 1)] = [list(c) for c in readcells]
            for (r, f, v) in cells:
                case['written']['%d,%d' % (r, f)] = v
            free_rows = [r for r in free_rows if r not in used]
        if not case['gen'] or not any(s['s'] in ('var', 'arr', 'arr2') for s in case['gen']):
            return None
        if special_left is not None:
            case['special'] = None
        return case

    def free_case(self, rng):
        dg = rng.choice(DELIMS)
        dp = dg
        lines, toks = build_template(rng, dg, rng.randint(1, 6))
        nl = len(lines)
        case = {'kind': 'free', 'dg': dg, 'dp': dp, 'lines': lines, 'gen': [], 'par': [],
                'written': {}, 'reads': {}, 'special': None, 'extra': {}}

        def rint(lo, hi):
            return rng.randint(lo, hi)

        def anchor_steps():
            out = []
            for _ in range(rng.choice([0, 1, 1, 1, 2])):
                if rng.random() < 0.6:
                    out.append({'s': 'reset'})
                present = sorted({a for tk in toks for a in has_anchor(tk)})
                a = rng.choice(present) if present and rng.random() < 0.9 else \
                    rng.choice(ANCHORS + ['CASE', 'A', '1', 'E'])
                out.append({'s': 'mark', 'a': a,
                            'occ': rng.choice([1, 1, 1, 1, 2, -1, -1, -1, -2, 3, 0])})
            return out

        def fval():
            r = rng.random()
            if r < 0.06:
                return enc(rng.choice([math.nan, math.inf, -math.inf]))
            return rnd_value(rng)

        for _ in range(rng.randint(1, 3)):
            steps = anchor_steps()
            kind = rng.choice(['var', 'var', 'arr', 'arr', 'arr2'])
            if kind == 'var':
                g = {'s': 'var', 'v': fval(), 'row': rint(-nl - 1, nl + 1), 'field': rint(-1, 8)}
                p = rng.choice([
                    {'s': 'var', 'row': g['row'], 'field': g['field']},
                    {'s': 'var', 'row': rint(-nl - 1, nl + 1), 'field': rint(-2, 8)},
                    {'s': 'key', 'key': rng.choice(ANCHORS + ['CASE']), 'field': rint(-1, 6),
                     'occ': rng.choice([1, 1, 2, -1, -2, 0, 3]), 'off': rint(-2, 2)}])
            elif kind == 'arr':
                rs = rint(-2, nl)
                re_ = rng.choice([None, None, rs, rs + 1, rs + 2, rs - 1])
                nv = rint(0, 9)
                vk = rng.choice(['f', 'i', 's', None])
                g = {'s': 'arr', 'vals': [fval() if vk is None else rnd_value(rng, vk)
                                          for _ in range(nv)],
                     'rs': rs, 'fs': rint(-1, 6), 'fe': rint(-1, 8), 're': re_,
                     'sep': rng.choice([None, ' ', ', ', ',', '\t']), 'np': rng.random() < 0.5 and vk is not None}
                p = {'s': 'arr', 'rs': g['rs'] if rng.random() < 0.8 else rint(-2, nl),
                     'fs': g['fs'] if rng.random() < 0.8 else rint(-1, 6),
                     're': g['re'] if rng.random() < 0.8 else rng.choice([None, rs + 1]),
                     'fe': g['fe'] if rng.random() < 0.7 else rint(-1, 9)}
            else:
                rs = rint(-1, nl)
                re_ = rs + rint(-1, 2)
                nr, nc = rint(1, 3), rint(1, 4)
                vk = rng.choice(['f', 'i'])
                g = {'s': 'arr2', 'vals': [[rnd_value(rng, vk) for _ in range(nc)] for _ in range(nr)],
                     'rs': rs, 're': re_, 'fs': rint(0, 4), 'fe': rint(0, 7)}
                p = {'s': 'arr2', 'rs': rs, 'fs': g['fs'] if rng.random() < 0.8 else rint(0, 4),
                     're': re_, 'fe': rng.choice([g['fe'], g['fe'], None, 0, rint(0, 7)])}
            case['gen'] += steps + [g]
            case['par'] += steps + [p]
        return case

    # -------------------------------------------------------------------------------------------
    # real code
    @staticmethod
    def _err(e):
        n = type(e).__name__
        if isinstance(e, UnboundLocalError):
            return 'NameError'
        return n

    @staticmethod
    def _pyvals(step):
        vals = [dec(e) for e in step['vals']]
        if step.get('np'):
            return np.array(vals)
        return vals

    _frame_parsers = {}

    def _parse_all(self, parser, lines):
        out = []
        for ln in lines:
            try:
                out.append([enc(x) for x in parser._parse_line().parseString(ln)])
            except Exception as e:     # blank line: pyparsing needs one field
                out.append({'err': self._err(e)})
        return out

    @staticmethod
    def _floats(case):
        out = []
        for st in case['gen']:
            vs = [st['v']] if st['s'] == 'var' else (
                st['vals'] if st['s'] == 'arr' else [x for r in st['vals'] for x in r]
                if st['s'] == 'arr2' else [])
            out += [v for v in vs if v['t'] == 'f']
        return out[:6]

    def run_impl(self, case):
        from openmdao.utils.file_wrap import InputFileGenerator, FileParser, _getformat
        if case['kind'] == 'table':
            p = FileParser()
            out = []
            with warnings.catch_warnings():
                warnings.simplefilter('ignore')
                for t in case['tokens']:
                    r = list(p._parse_line().parseString(t))
                    out.append([enc(x) for x in r])
            return {'table': out}
        base = 'c29_%d' % os.getpid()
        tname, oname = base + '.tmpl', base + '.out'
        with open(tname, 'w', newline='') as fh:
            fh.write(''.join(case['lines']))
        res = {}
        buf = io.StringIO()
        with contextlib.redirect_stdout(buf), warnings.catch_warnings():
            warnings.simplefilter('ignore')
            gen = InputFileGenerator()
            gen.set_template_file(tname)
            gen.set_generated_file(oname)
            if case['dg'] is not None:
                gen.set_delimiters(case['dg'])
            for k, st in enumerate(case['gen']):
                try:
                    s = st['s']
                    if s == 'reset':
                        gen.reset_anchor()
                    elif s == 'mark':
                        gen.mark_anchor(st['a'], st['occ'])
                    elif s == 'var':
                        gen.transfer_var(dec(st['v']), st['row'], st['field'])
                    elif s == 'arr':
                        kw = {}
                        if st['re'] is not None:
                            kw['row_end'] = st['re']
                        if st['sep'] is not None:
                            kw['sep'] = st['sep']
                        gen.transfer_array(self._pyvals(st), st['rs'], st['fs'], st['fe'], **kw)
                    elif s == 'arr2':
                        gen.transfer_2Darray(np.array([[dec(e) for e in row] for row in st['vals']]),
                                             st['rs'], st['re'], st['fs'], st['fe'])
                except Exception as e:
                    res['gen_err'] = self._err(e)
                    res['gen_step'] = k
                    res['gen_msg'] = str(e)[:120]
                    break
            if 'gen_err' not in res:
                gen.generate()
                with open(oname, 'r', newline='') as fh:
                    res['out_text'] = fh.read()
                par = FileParser()
                par.set_file(oname)
                if case['dp'] is not None:
                    par.set_delimiters(case['dp'])
                answers = []
                for st in case['par']:
                    try:
                        s = st['s']
                        if s == 'reset':
                            par.reset_anchor()
                            answers.append({'ok': True})
                        elif s == 'mark':
                            par.mark_anchor(st['a'], st['occ'])
                            answers.append({'ok': True})
                        elif s == 'var':
                            answers.append({'ok': True, 'v': enc(par.transfer_var(st['row'], st['field']))})
                        elif s == 'key':
                            answers.append({'ok': True, 'v': enc(par.transfer_keyvar(
                                st['key'], st['field'], st['occ'], st['off']))})
                        elif s == 'arr':
                            a = par.transfer_array(st['rs'], st['fs'], st['re'], st['fe'])
                            answers.append({'ok': True, 'v': [enc(x) for x in a.ravel().tolist()],
                                            'dtype': a.dtype.kind})
                        elif s == 'arr2':
                            a = par.transfer_2Darray(st['rs'], st['fs'], st['re'], st['fe'])
                            answers.append({'ok': True, 'v': [[enc(x) for x in row] for row in a.tolist()],
                                            'dtype': a.dtype.kind})
                    except Exception as e:
                        answers.append({'ok': False, 'err': self._err(e)})
                res['par'] = answers
                # every line of template and output through the real line parser (frame oracle)
                fp = self._frame_parsers.get(case['dp'])
                if fp is None:
                    fp = FileParser()
                    if case['dp'] is not None:
                        fp.set_delimiters(case['dp'])
                    self._frame_parsers[case['dp']] = fp
                res['fields_tmpl'] = self._parse_all(fp, case['lines'])
                out_lines = res['out_text'].splitlines(keepends=True)
                res['fields_out'] = self._parse_all(fp, out_lines)
                # contract with pyparsing: a field (maximal run of non-delimiters) is one token
                d = ' \t' if case['dp'] is None else case['dp']
                atomic = True
                for ln, fo in zip(out_lines, res['fields_out']):
                    runs = [t for t in re.split('[' + re.escape(d) + '\n]+', ln) if t]
                    if isinstance(fo, dict):
                        atomic = atomic and not runs
                    else:
                        atomic = atomic and len(runs) == len(fo)
                res['atomic'] = atomic
        for f in (tname, oname):
            if os.path.exists(f):
                os.remove(f)
        # the formatter on the float values of the case: _getformat and the two % formats
        fm = []
        for e in self._floats(case):
            v = dec(e)
            try:
                g = _getformat(v)
            except Exception as ex:
                g = self._err(ex)
            fm.append([g, '%.16g' % v, '%.1f' % v])
        res['fmt'] = fm
        return res

    # -------------------------------------------------------------------------------------------
    # direct oracle: the property on the real output
    def oracle(self, case, impl):
        if case['kind'] != 'valid':
            return None
        if 'gen_err' in impl:
            return {'what': 'InputFileGenerator raised %s' % impl['gen_err'],
                    'failure': 'gen_raised:%s' % impl['gen_err'], 'step': impl['gen_step'],
                    'msg': impl.get('gen_msg')}
        written = case['written']
        ft, fo = impl['fields_tmpl'], impl['fields_out']

        def expected_cell(r, f):
            k = '%d,%d' % (r, f)
            if k in written:
                return written[k]
            return ft[r][f - 1]

        if len(fo) != len(ft):
            return {'what': 'number of lines changed: %d -> %d' % (len(ft), len(fo)),
                    'failure': 'frame_lines'}
        for r, (a, b) in enumerate(zip(ft, fo)):
            na = 0 if isinstance(a, dict) else len(a)
            nb = 0 if isinstance(b, dict) else len(b)
            if nb != na + case['extra'].get(str(r), 0):
                return {'what': 'number of fields on line %d changed: %d -> %d' % (r, na, nb),
                        'failure': 'frame_fields', 'line': r}
        for k, cells in sorted(case['reads'].items(), key=lambda kv: int(kv[0])):
            ans = impl['par'][int(k)]
            if not ans.get('ok'):
                return {'what': 'FileParser raised %s reading back' % ans.get('err'),
                        'failure': 'readback_error:%s' % ans.get('err'), 'step': int(k)}
            got = ans['v']
            if case['par'][int(k)]['s'] == 'arr2':
                got = [x for row in got for x in row]
            elif not isinstance(got, list):
                got = [got]
            exp = [expected_cell(r, f) for r, f in cells]
            wr = ['%d,%d' % (r, f) in written for r, f in cells]
            co = ans.get('dtype') in ('U', 'O')
            if len(got) != len(exp) or not all(
                    same_value(e, g, co) or (not w and g['t'] == 's' and e['t'] != 's')
                    for e, g, w in zip(exp, got, wr)):
                return {'what': 'value read back differs from value written',
                        'failure': 'readback_value', 'step': int(k), 'expected': exp, 'got': got}
        for r, b in enumerate(fo):
            if isinstance(b, dict):
                continue
            for f, g in enumerate(b, 1):
                e = expected_cell(r, f)
                key = '%d,%d' % (r, f)
                okv = same_value(e, g) if key in written else (e == g)
                if not okv:
                    return {'what': 'field (%d,%d) of the output is not the expected one' % (r, f),
                            'failure': 'frame_cell', 'expected': e, 'got': g}
        return None

    def signature(self, case, impl, failure):
        return {'special': case.get('special'), 'failure': failure.get('failure')}

    def nontrivial(self, case, impl):
        if case['kind'] == 'table':
            return True
        if case['kind'] == 'valid':
            return bool(case['written'])
        return 'gen_err' not in impl and impl.get('out_text') != ''.join(case['lines'])

    def bucket(self, case, impl):
        if case['kind'] == 'table':
            return ['kind=table']
        b = ['kind=' + case['kind'], 'delims=%r' % (case['dg'],),
             'gen_error=%s' % impl['gen_err'] if 'gen_err' in impl else 'gen_ok']
        if case.get('special'):
            b.append('special=' + case['special'])
        if case.get('nav'):
            b.append('nav_case')
            nm = sum(1 for st in case['gen'] if st['s'] == 'mark')
            b.append('nav_marks=%d' % min(nm, 6))
            if any(sum(ln.count(w) for w in NAV_BASE) >= 2 for ln in case['lines']):
                b.append('nav_anchor_repeats_in_line')
        for st in case['gen']:
            s = st['s']
            if s == 'mark':
                b.append('mark_fwd' if st['occ'] > 0 else ('mark_bwd' if st['occ'] < 0 else 'mark_0'))
            elif s == 'var':
                b.append('write_var:' + value_kind(st['v']))
            elif s == 'arr':
                b.append('write_arr_multirow' if st['re'] is not None else 'write_arr')
                for v in st['vals']:
                    b.append('arr_elem:' + value_kind(v))
            elif s == 'arr2':
                b.append('write_arr2')
        if case['extra']:
            b.append('overflow_append')
        for st, a in zip(case['par'], impl.get('par', [])):
            if st['s'] in ('var', 'key', 'arr', 'arr2'):
                b.append('read_%s:%s' % (st['s'], 'ok' if a.get('ok') else a.get('err')))
        if 'atomic' in impl and not impl['atomic']:
            b.append('output_not_atomic')
        if not case['lines'][-1].endswith('\n'):
            b.append('no_final_newline')
        return b

    # -------------------------------------------------------------------------------------------
    # model
    def model_requests(self, case, impl):
        if case['kind'] == 'table':
            return [{'op': 'special', 'fixed': self.variant['sign_fixed'], 't': t}
                    for t in case['tokens']]
        return self._run_request(case, impl) + self._fmt_requests(case)

    def _fmt_requests(self, case):
        out = []
        for e in self._floats(case):
            w = wire(e)
            f = {k: w[k] for k in ('k', 'q', 'nz') if k in w}
            out.append({'op': 'getformat', 'f': f})
            out.append({'op': 'fmt', 'sel': 'g16', 'f': f})
            out.append({'op': 'fmt', 'sel': 'f1', 'f': f})
        return out

    def _run_request(self, case, impl):
        def gstep(st):
            s = dict(st)
            if s['s'] == 'var':
                s['v'] = wire(s['v'])
            elif s['s'] == 'arr':
                s['vals'] = [wire(v) for v in s['vals']]
                if s['sep'] is None:
                    s['sep'] = ', '
                # numpy turns a list of mixed values into strings / floats: mirror what is passed
                s['vals'] = [wire(enc(x)) for x in np.asarray(self._pyvals(st)).tolist()] \
                    if st.get('np') else s['vals']
            elif s['s'] == 'arr2':
                arr = np.array([[dec(e) for e in row] for row in s['vals']])
                s['vals'] = [[wire(enc(x)) for x in row] for row in arr.tolist()]
            return s
        return [{'op': 'run', 'fixed': self.variant['fixed'], 'keep_eol': self.variant['keep_eol'],
                 'dg': ' ' if case['dg'] is None else case['dg'],
                 'dp': ' \t' if case['dp'] is None else case['dp'],
                 'lines': case['lines'], 'gen': [gstep(s) for s in case['gen']], 'par': case['par']}]

    _tokparsers = {}

    def _tok(self, dp, text):
        """One field text through the real pyparsing grammar."""
        from openmdao.utils.file_wrap import FileParser
        p = self._tokparsers.get(dp)
        if p is None:
            p = FileParser()
            if dp is not None:
                p.set_delimiters(dp)
            self._tokparsers[dp] = p
        with warnings.catch_warnings():
            warnings.simplefilter('ignore')
            r = list(p._parse_line().parseString(text))
        if len(r) != 1:
            return None
        return enc(r[0])

    def compare(self, case, impl, answers):
        if case['kind'] == 'table':
            for t, ans, real in zip(case['tokens'], answers, impl['table']):
                special = (len(real) == 1 and real[0]['t'] == 'f' and
                           real[0]['x'] in ('nan', 'inf', '-inf'))
                want = real[0]['x'] if special else None
                if ans['v'] != want:
                    return 'token %r: model special value %s, FileParser %s' % (t, ans['v'], real)
            return None
        # formatter tie: _getformat of the model, and the Lean reference of the two % formats
        for k, (e, real) in enumerate(zip(self._floats(case), impl.get('fmt', []))):
            gf, g16, f1 = answers[1 + 3 * k: 4 + 3 * k]
            if e['x'] not in ('nan', 'inf', '-inf'):
                if g16['v'] != real[1] or f1['v'] != real[2]:
                    raise Infra('Lean reference of %%-formatting differs from CPython for %s: %s/%s vs %s/%s'
                                % (e['x'], g16['v'], f1['v'], real[1], real[2]))
            mg = gf['v'] if gf.get('ok') else gf['err']
            if mg != real[0]:
                return '_getformat(%s): model %s, implementation %s' % (e['x'], mg, real[0])
        a = answers[0]
        g = a['gen']
        if 'gen_err' in impl:
            if g.get('ok'):
                return 'implementation raised %s at step %d, model succeeded' % (
                    impl['gen_err'], impl['gen_step'])
            if g['err'] != impl['gen_err'] or g['step'] != impl['gen_step']:
                return 'implementation raised %s at step %d, model %s at step %d' % (
                    impl['gen_err'], impl['gen_step'], g['err'], g['step'])
            return None
        if not g.get('ok'):
            return 'model raised %s at generator step %d, implementation succeeded' % (g['err'], g['step'])
        mtext = ''.join(g['lines'])
        if mtext != impl['out_text']:
            return 'generated file differs: model %r, implementation %r' % (mtext, impl['out_text'])
        if not impl.get('atomic'):
            return None       # contract with pyparsing not met: fields are not single tokens
        for k, (st, ma, ia) in enumerate(zip(case['par'], a['par'], impl['par'])):
            if st['s'] in ('reset',):
                continue
            if not ia.get('ok'):
                if ma.get('ok'):
                    if st['s'] in ('arr', 'arr2') and ia.get('err') == 'ValueError':
                        continue      # numpy could not store strings in a float array
                    return 'parser step %d: implementation raised %s, model returned %s' % (
                        k, ia.get('err'), ma.get('v'))
                if ma['err'] == 'shape':
                    continue
                if st['s'] == 'arr2' and ia.get('err') == 'ValueError':
                    continue      # numpy refused a string in an earlier row before the model's error
                if ma['err'] != ia['err']:
                    return 'parser step %d: implementation raised %s, model %s' % (k, ia['err'], ma['err'])
                continue
            if not ma.get('ok'):
                if ma['err'] == 'shape':
                    continue
                return 'parser step %d: model raised %s, implementation returned %s' % (
                    k, ma['err'], ia.get('v'))
            if st['s'] == 'mark':
                continue
            mv, iv = ma['v'], ia['v']
            if st['s'] == 'arr2':
                # rows of the returned array for which the file had no line stay zero
                zero = enc(0.0)
                if len(iv) != ma['nrows'] or any(x != zero for r in iv[len(mv):] for x in r):
                    return 'parser step %d: %d rows expected, implementation %s' % (k, ma['nrows'], iv)
                iv = iv[:len(mv)]
                if [len(r) for r in mv] != [len(r) for r in iv]:
                    return 'parser step %d: shapes differ %s vs %s' % (k, mv, iv)
                mv = [x for r in mv for x in r]
                iv = [x for r in iv for x in r]
            elif st['s'] in ('var', 'key'):
                mv, iv = [mv], [iv]
            if len(mv) != len(iv):
                return 'parser step %d: model %d fields, implementation %d' % (k, len(mv), len(iv))
            for t, x in zip(mv, iv):
                pv = self._tok(case['dp'], t)
                if pv is None:
                    raise Infra('field %r is not one pyparsing token although the line was atomic' % t)
                if st['s'] == 'key' and t == 'KeyField':
                    pass
                if pv == x:
                    continue
                # numpy coercions inside the returned array: int -> float, number -> text
                if st['s'] in ('arr', 'arr2') and same_value(pv, x) and pv['t'] != 's':
                    continue
                if st['s'] == 'arr' and ia.get('dtype') in ('U', 'O') and pv['t'] != 's' and x['t'] == 's':
                    try:      # numpy made a string array: the number became its text
                        fx, fp = float(x['v']), float(dec(pv))
                        if fx == fp or (fx != fx and fp != fp):
                            continue
                    except ValueError:
                        pass
                if st['s'] == 'arr2' and x == enc(0.0):
                    continue      # row swallowed by the try/except of transfer_2Darray
                return 'parser step %d: model field %r (= %s), implementation %s' % (k, t, pv, x)
        return None


PROP = C29()
