"""C19 — loading a recorded case restores the recorded state."""
import os
import random
import warnings
from fractions import Fraction

import numpy as np

import genmodel as gm
from common import Property, rat, unrat, Infra

RTOL = 1e-10


def shared_auto_run(seed):
    """Family `shared_auto`: several inputs promoted to one name and fed by one automatic
    independent variable, declared in different (compatible) units or selecting parts of the source
    with src_indices; system or problem recorder; loaded into the same or a fresh problem."""
    import openmdao.api as om
    rng = random.Random(seed)
    kind = rng.choice(['units', 'src_indices'])
    rec = rng.choice(['model', 'problem'])
    fresh = rng.choice(['same', 'setup', 'final'])
    n = rng.randint(2, 4)
    units = rng.sample(['m', 'cm', 'mm', 'km', 'inch'], 2)
    gains = [rng.choice([2.0, -3.0, 0.5]) for _ in range(2)]
    idx = [sorted(rng.sample(range(n + 1), rng.randint(1, n))) for _ in range(2)]
    vals = [rng.choice([5.0, -2.0, 0.5, 7.0, 1.25]) for _ in range(n + 1)]

    def build():
        p = om.Problem()
        m = p.model
        if kind == 'units':
            for k in range(2):
                m.add_subsystem('c%d' % k, om.ExecComp('y = %r * x' % gains[k],
                                                       x={'val': np.ones(n), 'units': units[k]},
                                                       y=np.ones(n)), promotes_inputs=['x'])
            m.set_input_defaults('x', units=units[0], val=np.ones(n))
        else:
            g = m.add_subsystem('g', om.Group(), promotes_inputs=['x'])
            for k in range(2):
                g.add_subsystem('c%d' % k, om.ExecComp('y = %r * x' % gains[k], x=np.ones(len(idx[k])),
                                                       y=np.ones(len(idx[k]))))
                g.promotes('c%d' % k, inputs=['x'], src_indices=idx[k], src_shape=(n + 1,))
        return p
    pre = '' if kind == 'units' else 'g.'
    names = ['x'] + [pre + 'c%d.%s' % (k, v) for k in range(2) for v in 'xy']
    xval = vals[:n] if kind == 'units' else vals
    res = {'kind': kind, 'recorder': rec, 'fresh': fresh, 'failures': []}
    cwd = os.getcwd()
    fn = os.path.join(cwd, 'c19_shared_%d.sql' % seed)
    if os.path.exists(fn):
        os.remove(fn)
    p = build()
    r = om.SqliteRecorder(fn, record_viewer_data=False)
    if rec == 'model':
        p.model.add_recorder(r)
        p.model.recording_options['record_inputs'] = True
    else:
        p.add_recorder(r)
        p.recording_options['record_inputs'] = True
        p.recording_options['includes'] = ['*']
    p.setup()
    p.set_val('x', xval)
    p.run_model()
    if rec == 'problem':
        p.record('pt')
    p.cleanup()
    cr = om.CaseReader(fn)
    case = cr.get_case(-1) if rec == 'model' else cr.get_case('pt')
    a = {nm: np.ravel(p.get_val(nm)).tolist() for nm in names}
    if fresh == 'same':
        tgt = p
    else:
        tgt = build()
        tgt.setup()
        if fresh == 'final':
            tgt.final_setup()
    if fresh != 'setup':
        tgt.set_val('x', np.ones(len(xval)))
        tgt.run_model()
    try:
        tgt.load_case(case)
        got = np.ravel(tgt.get_val('x')).tolist()
        if not np.allclose(got, a['x'], rtol=1e-12, atol=1e-12):
            res['failures'].append({'when': 'after load_case', 'var': 'x', 'loaded': got,
                                    'recorded': a['x']})
        tgt.run_model()
        for nm, v in a.items():
            got = np.ravel(tgt.get_val(nm)).tolist()
            if not np.allclose(got, v, rtol=1e-10, atol=1e-12):
                res['failures'].append({'when': 'after load_case and run_model', 'var': nm,
                                        'loaded': got, 'recorded': v})
    except Exception as e:
        res['failures'].append({'when': 'load_case raised', 'var': type(e).__name__,
                                'loaded': str(e)[:200], 'recorded': None})
    os.remove(fn)
    return res


class C19(Property):
    pid = 'C19'
    workers = 8
    tolerance = RTOL
    required_theorems = ['C19_frame', 'C19_restore', 'C19_restore_needs_distinct', 'C19_rerun']
    rule = ("cases: random models from harness/genmodel.py (units, src_indices, scaling, optional "
            "implicit components and a converging cycle with NLBGS/Newton); the model is run at state "
            "A and recorded (system recorder on the model with inputs+outputs+residuals, or problem "
            "recorder), moved to a different state B and run, then the recorded case is loaded with "
            "Problem.load_case into the same problem or into a freshly built one. Every recorded "
            "input and output is read back with get_val and compared bit for bit; run_model is "
            "called and the outputs compared with the recorded ones. Non-trivial: state B differs "
            "from state A in some recorded variable; distinct by (seed, variant).")
    assumptions = ["restored outputs compared exactly (same doubles), inputs at 1e-12 (unit round trip; "
                   "1e-7 inside a solver cycle, where the recorded input lags its source by the "
                   "convergence tolerance); re-run outputs at 1e-10 relative (1e-7 with iterative "
                   "nonlinear solvers)"]
    trusted_extra = ["sqlite storage and the JSON/blob round trip of the recorder (values compared)"]
    level_text = ("load_case is modelled as a sequence of stores on distinct variables followed by a "
                  "run-once pass; proved in Lean: every recorded variable reads back its recorded value "
                  "and all others are untouched (for any case naming each variable once), and a pass "
                  "started from a converged recorded state is a fixed point, so run_model reproduces the "
                  "recorded outputs. The real load_case is tied by recording generated models, loading "
                  "the case into the same and into a fresh Problem and comparing all values, and by the "
                  "Lean sweep from the loaded independent values.")
    level_note = ("partial: the set/get algebra and the fixed point are proved; the case reader, the "
                  "name mapping (absolute inputs / promoted outputs) and the real solvers are tied "
                  "differentially.")
    technique = "Lean 4 proof (list induction, fixed point of the sweep) + record/load differential runs"

    def cases(self, rng, tier):
        n = 30 if tier == 'quick' else 800
        for _ in range(n):
            cyc = rng.random() < 0.3
            yield {'gen_seed': rng.randrange(10 ** 9), 'bseed': rng.randrange(10 ** 9),
                   'opts': {'safe_indices': True, 'implicit': rng.random() < 0.4,
                            'scaling': rng.random() < 0.3,
                            'cycles': 'converging' if cyc else False},
                   'cfg': {'nonlinear': rng.choice(['nlbgs', 'newton']) if cyc else None,
                           'linear': 'direct' if cyc else None},
                   'recorder': rng.choice(['model', 'problem']),
                   'fresh': rng.random() < 0.5,
                   # the recorder leaves the independent variables out (their values are in the case
                   # only through the recorded inputs they feed)
                   'exclude_ivc': rng.random() < 0.35}
        # family: system recorder without the independent variables, loaded into the same problem
        # (after run_model) and into a fresh one (after setup only)
        for k in range(8 if tier == 'quick' else 150):
            yield {'gen_seed': rng.randrange(10 ** 9), 'bseed': rng.randrange(10 ** 9),
                   'opts': {'safe_indices': True, 'implicit': rng.random() < 0.3,
                            'scaling': rng.random() < 0.3, 'cycles': False},
                   'cfg': {'nonlinear': None, 'linear': None}, 'recorder': 'model',
                   'fresh': k % 2 == 0, 'exclude_ivc': True}
        # family: system recorder that leaves out inputs fed by the automatic independent-variable
        # component (their values are recorded only as outputs, under the promoted input name)
        for k in range(8 if tier == 'quick' else 150):
            yield {'gen_seed': rng.randrange(10 ** 9), 'bseed': rng.randrange(10 ** 9),
                   'opts': {'safe_indices': True, 'implicit': rng.random() < 0.3,
                            'scaling': rng.random() < 0.3, 'cycles': False, 'auto_ivc_p': 0.5},
                   'cfg': {'nonlinear': None, 'linear': None}, 'recorder': 'model',
                   'fresh': k % 2 == 0, 'exclude_ivc': False,
                   'exclude_auto_in': rng.randrange(1, 10 ** 6)}
        # family: one automatic independent variable shared by inputs in different units / with
        # src_indices
        for _ in range(10 if tier == 'quick' else 300):
            yield {'kind': 'shared_auto', 'gen_seed': rng.randrange(10 ** 9)}
        # family: a subsystem overrides System.load_case (the documented hook) and restores its own
        # variables itself; its pathname is, where the model allows, a plain string prefix of a
        # sibling's pathname
        for _ in range(10 if tier == 'quick' else 200):
            yield {'gen_seed': rng.randrange(10 ** 9), 'bseed': rng.randrange(10 ** 9),
                   'opts': {'safe_indices': True, 'implicit': rng.random() < 0.3,
                            'scaling': rng.random() < 0.3, 'cycles': False, 'prefix_names': True,
                            'n_comps': (3, 6)},
                   'cfg': {'nonlinear': None, 'linear': None},
                   'recorder': rng.choice(['model', 'problem']),
                   'fresh': rng.random() < 0.5, 'override': True}

    def _md(self, case):
        return gm.gen_md(random.Random(case['gen_seed']), **case['opts'])

    @staticmethod
    def _install_override(prob, md, case):
        """Give one subsystem a load_case override that restores that subsystem's own variables from
        the case (through the public set_val).  Returns the pathname chosen."""
        paths = sorted({gm.comp_path(c) for c in md['comps']} | {g for g in md['groups'] if g})
        pref = [a for a in paths if any(b != a and b.startswith(a) and not b.startswith(a + '.')
                                        for b in paths)]
        rng = random.Random(case['bseed'] + 1)
        path = rng.choice(pref or paths)
        sysobj = prob.model._get_subsystem(path)

        def load_case(self, cs):
            # restores the subsystem's own outputs (its inputs are connected: they take the
            # restored values of their sources; setting a connected input would write the source
            # through the inverse unit conversion and disturb it by an ulp)
            pre = self.pathname + '.'
            # ... except unconnected inputs: their auto-IVC source carries the input's promoted name,
            # so Problem.load_case leaves it to this override as well
            for abs_name in (cs.inputs.absolute_names() if cs.inputs is not None else []):
                if abs_name.startswith(pre) and \
                        prob.model.get_source(abs_name).startswith('_auto_ivc.'):
                    prob.model.set_val(abs_name, cs.inputs[abs_name])
            for abs_name in cs.outputs.absolute_names():
                if abs_name.startswith(pre):
                    prob.model.set_val(abs_name, cs.get_val(abs_name))
        sysobj.__class__ = type('LC_' + sysobj.__class__.__name__, (sysobj.__class__,),
                                {'load_case': load_case})
        return path

    def _state_b(self, case, md):
        rng = random.Random(case['bseed'])
        vals = {}
        for c in md['comps']:
            if c['kind'] == 'ivc':
                for od in c['outs']:
                    vals[gm.comp_path(c) + '.' + od['name']] = [
                        float(Fraction(rng.randint(-16, 16), 4)) for _ in od['val']]
        return vals

    def run_impl(self, case):
        import openmdao.api as om
        if case.get('kind') == 'shared_auto':
            try:
                with warnings.catch_warnings():
                    warnings.simplefilter('ignore')
                    return shared_auto_run(case['gen_seed'])
            except Exception as e:
                return {'error': type(e).__name__, 'msg': str(e)[:300]}
        md = self._md(case)
        res = {}
        try:
            with warnings.catch_warnings():
                warnings.simplefilter('ignore')
                fn = os.path.join(os.getcwd(), 'c19_%d.sql' % case['gen_seed'])
                if os.path.exists(fn):
                    os.remove(fn)
                p, info = gm.build_problem(md, cfg=case['cfg'])
                rec = om.SqliteRecorder(fn, record_viewer_data=False)
                if case['recorder'] == 'model':
                    p.model.add_recorder(rec)
                    p.model.recording_options['record_inputs'] = True
                    p.model.recording_options['record_outputs'] = True
                    p.model.recording_options['record_residuals'] = True
                    if case.get('exclude_ivc'):
                        exc = []
                        for ci, c in enumerate(md['comps']):
                            if c['kind'] == 'ivc':
                                for od in c['outs']:
                                    exc.append(gm.out_root_name(md, ci, od['name']))
                        p.model.recording_options['excludes'] = exc
                        res['excluded'] = exc
                    if case.get('exclude_auto_in'):
                        # some inputs fed by the automatic independent-variable component are left
                        # out; their values are in the case only as recorded (auto_ivc) outputs
                        r3 = random.Random(case['exclude_auto_in'])
                        exi = [gm.comp_path(md['comps'][cn['tgt'][0]]) + '.' + cn['tgt'][1]
                               for cn in md['conns'] if cn['src'] is None and r3.random() < 0.7 and
                               # (an input that is not promoted shares its name with the automatic
                               # source, which the same pattern would then leave out as well)
                               cn.get('promote_levels')]
                        p.model.recording_options['excludes'] = \
                            list(p.model.recording_options['excludes']) + exi
                        res['excluded_in'] = exi
                else:
                    p.add_recorder(rec)
                    p.recording_options['record_inputs'] = True
                    p.recording_options['record_outputs'] = True
                    p.recording_options['includes'] = ['*']
                if case.get('override'):
                    res['override'] = self._install_override(p, md, case)
                p.setup()
                gm.set_auto_ivc_values(p, md)
                p.run_model(case_prefix='state_a')
                if case['recorder'] == 'problem':
                    p.record('state_a')
                names_in = [gm.comp_path(c) + '.' + i['name'] for c in md['comps'] for i in c['ins']]
                names_out = [gm.comp_path(c) + '.' + o['name'] for c in md['comps'] for o in c['outs']]
                a_in = {n: np.ravel(p.get_val(n, from_src=False)).tolist() for n in names_in}
                a_out = {n: np.ravel(p.get_val(n)).tolist() for n in names_out}
                # move to state B
                for n, v in self._state_b(case, md).items():
                    shp = np.shape(p.get_val(n))
                    p.set_val(n, np.array(v).reshape(shp))
                p.run_model(case_prefix='state_b')
                p.cleanup()
                cr = om.CaseReader(fn)
                src = 'root' if case['recorder'] == 'model' else 'problem'
                ids = cr.list_cases(src, out_stream=None)
                cs = cr.get_case(ids[0])
                res['recorded_out'] = {n: np.ravel(cs.get_val(n)).tolist() for n in names_out
                                       if n in cs.outputs.absolute_names()} \
                    if hasattr(cs.outputs, 'absolute_names') else None
                if case['fresh']:
                    p2, info2 = gm.build_problem(md, cfg=case['cfg'])
                    if case.get('override'):
                        self._install_override(p2, md, case)
                    p2.setup()
                    # the fresh problem starts from state B as well (its defaults are state A), still
                    # without final_setup
                    for n, v in self._state_b(case, md).items():
                        p2.set_val(n, np.array(v).reshape(np.shape(p.get_val(n))))
                    tgt = p2
                else:
                    tgt = p
                tgt.load_case(cs)
                res['b_differs'] = any(a_out[n] != np.ravel(p.get_val(n)).tolist() for n in names_out) \
                    if not case['fresh'] else True
                res['loaded_in'] = {n: np.ravel(tgt.get_val(n)).tolist() for n in names_in}
                res['loaded_out'] = {n: np.ravel(tgt.get_val(n)).tolist() for n in names_out}
                res['loaded_src'] = {n: np.ravel(tgt.get_val(n)).tolist()
                                     for n in res.get('excluded_in', [])}
                res['a_in'] = a_in
                res['a_out'] = a_out
                tgt.run_model()
                res['rerun_out'] = {n: np.ravel(tgt.get_val(n)).tolist() for n in names_out}
                os.remove(fn)
        except Exception as e:
            res['error'] = type(e).__name__
            res['msg'] = str(e)[:300]
        return res

    def oracle(self, case, impl):
        if case.get('kind') == 'shared_auto':
            if 'error' in impl:
                return {'what': 'shared_auto: record/load raised %s' % impl['error'], 'msg': impl.get('msg')}
            if impl['failures']:
                f = impl['failures'][0]
                return {'what': 'shared automatic independent variable not restored by load_case (%s)'
                                % f['when'], 'var': f['var'], 'loaded': f['loaded'],
                        'recorded': f['recorded'], 'inputs': impl['kind']}
            return None
        if impl.get('error') == 'AnalysisError':
            return None
        if 'error' in impl:
            return {'what': 'record/load raised %s' % impl['error'], 'msg': impl.get('msg')}
        skip = set()
        if impl.get('excluded'):
            # restoring an excluded independent variable goes through set_val on the recorded inputs;
            # a chain with a repeated position at an inner level is written last-write-wins at the
            # outermost level only (C07's premise), so such a model has no defined restoration
            md1 = self._md(case)
            for cn in md1['conns']:
                if cn['src'] is None:
                    continue
                sod = [o for o in md1['comps'][cn['src'][0]]['outs'] if o['name'] == cn['src'][1]][0]
                try:
                    if any(len(set(l)) != len(l) for l in gm.chain_levels(sod['shape'], cn['chain'])):
                        return None
                except Exception:
                    return None
        if impl.get('excluded'):
            # independent variables left out of the case are restored only as far as recorded inputs
            # read them (and through the inverse unit conversion): not compared entry by entry
            md0, = (self._md(case),)
            skip = {gm.comp_path(c) + '.' + od['name'] for c in md0['comps'] if c['kind'] == 'ivc'
                    for od in c['outs']}
        for n, v in impl['a_out'].items():
            if n in skip:
                continue
            if impl['loaded_out'][n] != v:
                return {'what': 'output after load_case differs from the recorded value', 'var': n,
                        'loaded': impl['loaded_out'][n], 'recorded': v}
        for n, v in impl['a_in'].items():
            if n in (impl.get('excluded_in') or ()):
                # not recorded as an input: the input vector only follows at the next run; what the
                # case holds is the value of its (automatic) source, recorded as an output
                a, b = np.array(impl['loaded_src'][n]), np.array(v)
                if a.shape != b.shape or not np.all(np.abs(a - b) <= 1e-12 * np.maximum(1.0, np.abs(b))):
                    return {'what': 'automatic independent variable after load_case differs from the '
                                    'recorded value', 'var': n, 'loaded': impl['loaded_src'][n],
                            'recorded': v}
                continue
            a, b = np.array(impl['loaded_in'][n]), np.array(v)
            # inputs go through the unit conversion back and forth: a few ulps.  Inside a cycle the
            # recorded input is the value transferred before the last solver iteration, while
            # get_val reads the restored source: they differ by the solver's convergence tolerance.
            itol = 1e-7 if case['cfg']['nonlinear'] else 1e-12
            if a.shape != b.shape or not np.all(np.abs(a - b) <= itol * np.maximum(1.0, np.abs(b))):
                return {'what': 'input after load_case differs from the recorded value', 'var': n,
                        'loaded': impl['loaded_in'][n], 'recorded': v}
        tol = 1e-7 if case['cfg']['nonlinear'] else RTOL
        for n, v in impl['a_out'].items():
            if n in skip:
                continue
            a, b = np.array(impl['rerun_out'][n]), np.array(v)
            if not np.all(np.abs(a - b) <= tol * np.maximum(1.0, np.abs(b))):
                return {'what': 'run_model after load_case does not reproduce the recorded outputs',
                        'var': n, 'rerun': impl['rerun_out'][n], 'recorded': v}
        return None

    def signature(self, case, impl, failure):
        return {'what': failure.get('what'), 'recorder': case.get('recorder'), 'fresh': case.get('fresh')}

    @staticmethod
    def _has_prefix_sibling(md, impl):
        a = impl.get('override')
        paths = {gm.comp_path(c) for c in md['comps']} | {g for g in md['groups'] if g}
        return bool(a) and any(b != a and b.startswith(a) and not b.startswith(a + '.') for b in paths)

    def nontrivial(self, case, impl):
        if case.get('kind') == 'shared_auto':
            return 'error' not in impl
        return bool(impl.get('b_differs'))

    def bucket(self, case, impl):
        if case.get('kind') == 'shared_auto':
            return ['shared_auto', 'shared_auto_' + str(impl.get('kind')),
                    'recorder=' + str(impl.get('recorder')), 'shared_auto_target=' + str(impl.get('fresh'))]
        md = self._md(case)
        return ['solver_reported_failure' if impl.get('error') == 'AnalysisError' else
                'impl_error' if 'error' in impl else 'impl_ok',
                'recorder=' + case['recorder'], 'fresh=%s' % case['fresh'],
                'load_case_override' + ('(prefix sibling)' if self._has_prefix_sibling(md, impl) else '')
                if case.get('override') else 'no_override',
                'cyclic' if md.get('cyclic') else 'acyclic'] + \
            (['auto_ivc_inputs_excluded=%d' % min(len(impl.get('excluded_in', [])), 3)]
             if case.get('exclude_auto_in') else [])

    # -- model -----------------------------------------------------------------------------------
    def model_requests(self, case, impl):
        if case.get('kind') == 'shared_auto':
            return []
        md = self._md(case)
        if 'error' in impl or md.get('cyclic') or impl.get('excluded'):
            # (with the independent variables left out of the case the restored state is not the
            # stored one entry by entry; the direct oracle covers those cases)
            return []
        # the recorded values of the independent variables, loaded into a store holding state B,
        # then one sweep: must give the recorded outputs
        off, aoff, n = gm.flat_layout(md)
        spec = gm.flat_spec(md)
        keys, store, case_l = [], [], []
        for ci, c in enumerate(md['comps']):
            for od in c['outs']:
                nm = gm.comp_path(c) + '.' + od['name']
                keys.append((nm, off[(ci, od['name'])]))
        b = self._state_b(case, md)
        for k, (nm, o) in enumerate(keys):
            store.append([rat(x) for x in b.get(nm, impl['a_out'][nm])])
            case_l.append([k, [rat(x) for x in impl['a_out'][nm]]])
        u0 = [Fraction(0)] * n
        for (nm, o) in keys:
            for e, x in enumerate(impl['a_out'][nm]):
                u0[o + e] = Fraction(x)
        for kk, cn in enumerate(md['conns']):
            if cn['src'] is None:
                for e, x in enumerate(cn['val']):
                    u0[aoff[kk] + e] = unrat(x)
        return [{'op': 'load', 'store': store, 'case': case_l},
                {'op': 'sweep', 'n': n, 'u0': [rat(x) for x in u0],
                 'comps': [{'start': c['start'], 'len': c['len'], 'ins': c['ins'], 'polys': c['polys']}
                           for c in spec['comps']]}]

    def compare(self, case, impl, answers):
        if case.get('kind') == 'shared_auto':
            return None
        if not answers:
            return None
        md = self._md(case)
        off, aoff, n = gm.flat_layout(md)
        ld, sw = answers
        k = 0
        for ci, c in enumerate(md['comps']):
            for od in c['outs']:
                nm = gm.comp_path(c) + '.' + od['name']
                if [float(unrat(x)) for x in ld['store'][k]] != impl['loaded_out'][nm]:
                    return 'loaded value of %s: implementation %s, model %s' % (
                        nm, impl['loaded_out'][nm], ld['store'][k])
                k += 1
                s = off[(ci, od['name'])]
                mu = [float(unrat(x)) for x in sw['u'][s:s + len(impl['rerun_out'][nm])]]
                a, b = np.array(impl['rerun_out'][nm]), np.array(mu)
                if not np.all(np.abs(a - b) <= 1e-9 * np.maximum(1.0, np.abs(b))):
                    return 're-run output %s: implementation %s, model sweep %s' % (nm, a.tolist(), mu)
        return None


PROP = C19()
