"""C03 — simultaneous-derivative coloring reconstructs every Jacobian entry.

Case kinds
----------
``pat``      a boolean sparsity pattern (exhaustive small shapes, random and structured families up
             to 40x40) plus a seeded integer matrix with that pattern.  The real
             ``_compute_coloring(J, 'fwd'|'rev'|'auto', direct=True|False)`` and ``MNCO_bidir`` are
             run; every returned ``Coloring`` is exported (groups, nonzero rows/cols, subtractions).
             * direct oracle (no Lean): the integer matrix is compressed with the real seeds
               (``Coloring.tangent_matrix``) and expanded again with the real consumers
               (``colored_jac_iter`` in the order of ``simul_coloring_jac_setter``, then
               ``_apply_subtractions``; ``_expand_jac`` for unidirectional colorings) and must come
               back exactly; each column (row) is in exactly one color; solve counts are bounded by
               the uncolored count.
             * correspondence: Lean ``colorFwd/colorRev`` must give the *same groups* (same
               tie-breaking) and nonzero lists; Lean ``chooseBest`` must keep the same candidate in
               mode auto; the proven-sound ``certify`` must accept every exported coloring
               (translation validation of MNCO, direct and substitution); Lean ``recover`` on the
               same integer matrix must equal what the real expansion produced.
``total``    a real Problem (IndepVarComp -> linear component with declared sparse partials,
             ScipyOptimizeDriver) whose total jacobian has the pattern; colored (fixed or dynamic
             coloring, direct/substitution, optional driver scaling) vs uncolored
             ``compute_totals``; the coloring the driver actually used is exported and certified.
``requests`` a real Problem with two design variables and two responses whose driver has a total
             coloring (dynamic or fixed), then a *sequence* of ``compute_totals`` requests (default;
             ``of`` subset / reordered only; ``wrt`` subset / reordered only; both given; default
             again; optionally a custom request first).  Every request is compared entry by entry
             with the same request on an uncolored twin problem: the driver's coloring is valid for
             exactly one jacobian layout and must never leak into another one.  Re-setup variant:
             after the first round the component's sparsity is changed through an option (both
             problems), ``setup()`` is called again on the same Problem and the requests are
             repeated; a coloring from an earlier setup must never survive.
``subcolor`` a component that declares a *partial* coloring over a subset of its inputs
             (``declare_coloring(wrt=[...], method='cs')``) while its other partials are analytic
             (sparse ``declare_partials`` + ``compute_partials``), in a model whose driver also
             declares a total coloring; colored totals (first and second call) vs an uncolored twin
             and vs the exact matrix, fwd / rev / auto.
``partial``  colored vs uncolored partials: a component with ``declare_coloring(method='cs')``
             (approximation_scheme.py) and an ``om.ExecComp`` (exec_comp.py) with that pattern; and
             a bilinear ExecComp (``y_r = sum a_rc x_c v_c``) whose first linearization, where it
             computes its coloring, happens at ``x = 0`` and which is then evaluated elsewhere.
"""
import os
import random
import warnings
from fractions import Fraction

# the cases are tiny; BLAS thread pools only hurt once run_impl is sharded over forked workers
for _v in ('OPENBLAS_NUM_THREADS', 'OMP_NUM_THREADS', 'MKL_NUM_THREADS'):
    os.environ.setdefault(_v, '1')

import numpy as np  # noqa: E402

from common import Property, rat, unrat, Infra  # noqa: E402

POW2 = [Fraction(1, 4), Fraction(1, 2), Fraction(2), Fraction(4), Fraction(8), Fraction(1, 8)]
PARTIAL_TOL = 1e-12


# ------------------------------------------------------------------------------------------------
# patterns

def dense(case):
    J = np.zeros((case['m'], case['n']), dtype=bool)
    for r, c in case['nz']:
        J[r, c] = True
    return J


def nz_of(J):
    r, c = np.nonzero(J)
    return [[int(a), int(b)] for a, b in zip(r, c)]


def matrix(case):
    """Seeded integer matrix with the pattern.  For `pat` cases about 10% of the pattern entries hold
    a 0 (a structural nonzero may be numerically zero); for real models every entry is nonzero
    because the framework detects the sparsity from the values."""
    rng = random.Random(case['vseed'])
    M = np.zeros((case['m'], case['n']))
    if case.get('ones'):
        for r, c in case['nz']:
            M[r, c] = 1.0
        return M
    for r, c in case['nz']:
        zero = rng.random() < 0.1 and case['k'] == 'pat'
        M[r, c] = 0 if zero else rng.choice([-9, -7, -5, -3, -2, -1, 1, 2, 3, 4, 6, 8])
    return M


def family(rng, fam, m, n):
    J = np.zeros((m, n), dtype=bool)
    k = min(m, n)
    if fam == 'random':
        d = rng.choice([0.04, 0.08, 0.15, 0.3, 0.6])
        for i in range(m):
            for j in range(n):
                J[i, j] = rng.random() < d
    elif fam == 'arrow':
        J[np.arange(k), np.arange(k)] = True
        for _ in range(rng.randint(1, 2)):
            J[rng.randrange(m), :] = True
        for _ in range(rng.randint(1, 2)):
            J[:, rng.randrange(n)] = True
    elif fam == 'banded':
        bw = rng.randint(0, 3)
        for i in range(m):
            for j in range(n):
                J[i, j] = abs(i - j) <= bw
        if rng.random() < 0.6:
            J[rng.randrange(m), :] = True
        if rng.random() < 0.6:
            J[:, rng.randrange(n)] = True
    elif fam == 'blockdiag':
        b = rng.randint(1, 4)
        for i in range(m):
            for j in range(n):
                J[i, j] = (i // b == j // b)
        J[rng.randrange(m), :] = True
        J[:, rng.randrange(n)] = True
    elif fam == 'sparse+partial':
        for i in range(m):
            for j in range(n):
                J[i, j] = rng.random() < 0.08
        r0, c0 = rng.randrange(m), rng.randrange(n)
        for j in range(n):
            J[r0, j] |= rng.random() < 0.8
        for i in range(m):
            J[i, c0] |= rng.random() < 0.8
    elif fam == 'corners':
        J[np.arange(k), np.arange(k)] = True
        for i in range(m):
            for j in range(n):
                J[i, j] |= rng.random() < 0.03
        J[0, :] = True
        J[:, 0] = True
        J[-1, :] = True
    return J


FAMILIES = ['random', 'arrow', 'banded', 'blockdiag', 'sparse+partial', 'corners']


def exhaustive(max_cells, extra_shapes=(), sample_vectors=None):
    """Every pattern of every shape with at most `max_cells` cells.  With `sample_vectors=(rng, k)`
    the single-row / single-column shapes with 7 or more cells (1792 of the 3210 patterns with <= 9
    cells, all with the same trivial structure) contribute only k sampled patterns each."""
    shapes = [(a, b) for a in range(1, max_cells + 1) for b in range(1, max_cells + 1)
              if a * b <= max_cells]
    shapes += [s for s in extra_shapes if s not in shapes]
    for (m, n) in shapes:
        cells = [(i, j) for i in range(m) for j in range(n)]
        allbits = range(2 ** (m * n))
        if sample_vectors is not None and min(m, n) == 1 and m * n >= 7:
            rng, k = sample_vectors
            allbits = sorted(rng.sample(allbits, min(k, len(allbits))))
        for bits in allbits:
            nz = [[i, j] for k, (i, j) in enumerate(cells) if (bits >> k) & 1]
            yield {'k': 'pat', 'm': m, 'n': n, 'nz': nz, 'fam': 'exhaustive', 'vseed': bits}


# ------------------------------------------------------------------------------------------------
# the real Coloring object, exported

def colj(col):
    """Canonical JSON form of a real Coloring (None nonzero lists become [])."""
    def side(s):
        if not s:
            return [], []
        return ([[int(x) for x in g] for g in s[0]],
                [[] if z is None else [int(x) for x in z] for z in s[1]])
    f, fnz = side(col._fwd)
    r, rnz = side(col._rev)
    subs = [[[int(p[0]), int(p[1])], [[int(a), int(b)] for a, b in ks]]
            for p, ks in (col._subtractions or [])]
    return {'fwd': f, 'fwdNz': fnz, 'rev': r, 'revNz': rnz, 'subs': subs,
            'total': int(col.total_solves())}


def sparsity_of(col):
    """The sparsity pattern a real Coloring was computed for."""
    return sorted([int(r), int(c)] for r, c in zip(col._nzrows.tolist(), col._nzcols.tolist()))


class RecordMNCO:
    """While active, every call of coloring.MNCO_bidir made by the real code is recorded, so the
    bidirectional candidate of `_compute_coloring(J, 'auto')` is seen even when the fallback logic
    discards it (saves running MNCO_bidir a second time).  Observation only."""

    def __init__(self):
        import openmdao.utils.coloring as mod
        self.mod = mod
        self.orig = mod.MNCO_bidir
        self.out = []

    def __enter__(self):
        def rec(*a, **kw):
            c = self.orig(*a, **kw)
            self.out.append(c)
            return c
        self.mod.MNCO_bidir = rec
        return self

    def __exit__(self, *exc):
        self.mod.MNCO_bidir = self.orig
        return False


def real_reconstruct(col, M):
    """Compress M with the real seeds, expand with the real consumers in the order of
    _TotalJacInfo.compute_totals (fwd colors, rev colors, subtractions)."""
    J = np.zeros_like(M)
    if col._fwd:
        T = col.tangent_matrix('fwd')                   # (n fwd colors, ncols)
        comp = M @ T.T                                  # what the colored fwd solves return
        for vals, rows, c in col.colored_jac_iter(comp, 'fwd'):
            J[rows, c] = vals
    if col._rev:
        T = col.tangent_matrix('rev')                   # (n rev colors, nrows)
        comp = T @ M
        for vals, cs, r in col.colored_jac_iter(comp, 'rev'):
            J[r, cs] = vals
    if col._subtractions:
        col._apply_subtractions(J)
    return J


def diff_entries(J, M, limit=6):
    bad = np.argwhere(J != M)
    return [[int(r), int(c), rat(J[r, c]), rat(M[r, c])] for r, c in bad[:limit]]


def partition_failures(case, name, cj):
    """'assigns each column (row) to exactly one color' evaluated on the exported coloring."""
    m, n, nz = case['m'], case['n'], case['nz']
    out = []
    ff = [c for g in cj['fwd'] for c in g]
    rf = [r for g in cj['rev'] for r in g]
    if len(set(ff)) != len(ff):
        out.append('a column is in two forward colors')
    if len(set(rf)) != len(rf):
        out.append('a row is in two reverse colors')
    if any(c < 0 or c >= n for c in ff) or any(r < 0 or r >= m for r in rf):
        out.append('group member out of range')
    if any(len(g) == 0 for g in cj['fwd'] + cj['rev']):
        out.append('empty color')
    fs, rs = set(ff), set(rf)
    fnz = [set(x) for x in cj['fwdNz']]
    rnz = [set(x) for x in cj['revNz']]
    for r, c in nz:
        by_f = c in fs and c < len(fnz) and r in fnz[c]
        by_r = r in rs and r < len(rnz) and c in rnz[r]
        if not (by_f or by_r):
            out.append('nonzero (%d,%d) is covered by no color' % (r, c))
            break
    if name == 'fwd' and fs != {c for _, c in nz}:
        out.append('forward colors are not a partition of the nonzero columns')
    if name == 'rev' and rs != {r for r, _ in nz}:
        out.append('reverse colors are not a partition of the nonzero rows')
    return out


# ------------------------------------------------------------------------------------------------
# real models

def _lin_class():
    import openmdao.api as om

    class Lin(om.ExplicitComponent):
        def __init__(self, A, approx=False):
            super().__init__()
            self.A = A
            self.approx = approx

        def setup(self):
            m, n = self.A.shape
            self.add_input('x', np.zeros(n))
            self.add_output('y', np.zeros(m))
            if self.approx:
                self.declare_partials('y', 'x', method='cs')
                if self.approx == 'colored':
                    self.declare_coloring(wrt='*', method='cs', show_summary=False,
                                          min_improve_pct=0.)
            else:
                r, c = np.nonzero(self.A)
                self.declare_partials('y', 'x', rows=r, cols=c, val=self.A[r, c].astype(float))

        def compute(self, inputs, outputs):
            outputs['y'] = self.A @ inputs['x']
    return Lin


def total_problem(case, colored):
    import openmdao.api as om
    from openmdao.utils.coloring import _compute_coloring, dynamic_total_coloring
    Lin = _lin_class()
    A = matrix(case)
    m, n = A.shape
    p = om.Problem()
    p.model.add_subsystem('ivc', om.IndepVarComp('x', np.zeros(n)), promotes=['*'])
    p.model.add_subsystem('c', Lin(A), promotes=['*'])
    kw = {}
    if case.get('colscale'):
        kw['scaler'] = np.array([float(unrat(x)) for x in case['colscale']])
    p.model.add_design_var('x', **kw)
    kw = {}
    if case.get('rowscale'):
        kw['scaler'] = np.array([float(unrat(x)) for x in case['rowscale']])
    p.model.add_constraint('y', lower=0., **kw)
    p.driver = om.ScipyOptimizeDriver()
    if colored and not case['dyn']:
        col = _compute_coloring(dense(case), case['mode'], direct=case['direct'])
        col._row_vars = ['y']
        col._row_var_sizes = [m]
        col._col_vars = ['x']
        col._col_var_sizes = [n]
        # a fixed coloring is dropped when it does not improve on no coloring by min_improve_pct
        p.driver.declare_coloring(direct=case['direct'], show_summary=False, min_improve_pct=0.)
        p.driver.use_fixed_coloring(col)
    if colored and case['dyn']:
        p.driver.declare_coloring(direct=case['direct'], show_summary=False, min_improve_pct=0.)
    p.setup(mode=case['mode'])
    p.final_setup()
    p.run_model()
    if colored and case['dyn']:
        dynamic_total_coloring(p.driver, run_model=False)
    J = p.compute_totals(of=['y'], wrt=['x'], return_format='array',
                         driver_scaling=bool(case.get('rowscale') or case.get('colscale')))
    return p, np.array(J)


def _lin2_class():
    import openmdao.api as om

    class Lin2(om.ExplicitComponent):
        """(y1, y2) = A (x, w) with A split into four declared sparse blocks.  The option `which`
        selects one of several matrices of the same shape (another sparsity after a new setup())."""

        def __init__(self, As, m1, n1):
            super().__init__()
            self.As, self.m1, self.n1 = As, m1, n1

        def initialize(self):
            self.options.declare('which', default=0, types=int)

        @property
        def A(self):
            return self.As[self.options['which']]

        def blocks(self):
            A, m1, n1 = self.A, self.m1, self.n1
            return {('y1', 'x'): A[:m1, :n1], ('y1', 'w'): A[:m1, n1:],
                    ('y2', 'x'): A[m1:, :n1], ('y2', 'w'): A[m1:, n1:]}

        def setup(self):
            m, n = self.A.shape
            self.add_input('x', np.zeros(self.n1))
            self.add_input('w', np.zeros(n - self.n1))
            self.add_output('y1', np.zeros(self.m1))
            self.add_output('y2', np.zeros(m - self.m1))
            for (of, wrt), B in self.blocks().items():
                r, c = np.nonzero(B)
                if r.size:
                    self.declare_partials(of, wrt, rows=r, cols=c, val=B[r, c].astype(float))

        def compute(self, inputs, outputs):
            v = np.concatenate([inputs['x'], inputs['w']])
            y = self.A @ v
            outputs['y1'] = y[:self.m1]
            outputs['y2'] = y[self.m1:]
    return Lin2


def requests_of(case):
    """The sequence of compute_totals keyword sets of a `requests` case."""
    seq = [{}, {'of': ['y2']}, {'of': ['y2', 'y1']}, {'wrt': ['w']}, {'wrt': ['w', 'x']},
           {'of': ['y2'], 'wrt': ['w']}, {'of': ['y2', 'y1'], 'wrt': ['w', 'x']},
           {'of': ['y1', 'y2'], 'wrt': ['x', 'w']}, {}]
    if case['first'] == 'wrt':
        seq = [{'wrt': ['w', 'x']}] + seq
    elif case['first'] == 'of':
        seq = [{'of': ['y2', 'y1']}] + seq
    return seq


def round_matrices(case):
    """The matrix of every round of a `requests` case (round 0 = the case's own pattern)."""
    out = [matrix(case)]
    for rd in case.get('resetup') or []:
        out.append(matrix(dict(case, nz=rd['nz'], vseed=rd['vseed'])))
    return out


def requests_problem(case, colored):
    import openmdao.api as om
    from openmdao.utils.coloring import _compute_coloring
    Lin2 = _lin2_class()
    A = matrix(case)
    m, n = A.shape
    m1, n1 = case['split']
    p = om.Problem()
    ivc = p.model.add_subsystem('ivc', om.IndepVarComp(), promotes=['*'])
    ivc.add_output('x', np.zeros(n1))
    ivc.add_output('w', np.zeros(n - n1))
    p.model.add_subsystem('c', Lin2(round_matrices(case), m1, n1), promotes=['*'])
    p.model.add_design_var('x')
    p.model.add_design_var('w')
    p.model.add_constraint('y1', lower=0.)
    p.model.add_constraint('y2', lower=0.)
    p.driver = om.ScipyOptimizeDriver()
    if colored:
        p.driver.declare_coloring(direct=case['direct'], show_summary=False, min_improve_pct=0.)
        if not case['dyn']:
            col = _compute_coloring(dense(case), case['mode'], direct=case['direct'])
            col._row_vars = ['y1', 'y2']
            col._row_var_sizes = [m1, m - m1]
            col._col_vars = ['x', 'w']
            col._col_var_sizes = [n1, n - n1]
            p.driver.use_fixed_coloring(col)
    p.setup(mode=case['mode'])
    p.final_setup()
    p.run_model()
    return p


def subcolor_problem(case, total_coloring):
    import openmdao.api as om
    A = matrix(case)
    m, n = A.shape
    sizes, colored = case['sizes'], case['colored']
    offs = np.cumsum([0] + sizes)
    names = ['x%d' % j for j in range(len(sizes))]
    # most cases keep colorings even if they save nothing (default: dropped below 5% improvement)
    keep = {'min_improve_pct': 0.} if case.get('keep', True) else {}

    class SubC(om.ExplicitComponent):
        def setup(self):
            for j, nm in enumerate(names):
                self.add_input(nm, np.ones(sizes[j]))
            self.add_output('y', np.zeros(m))
            self.blocks = {}
            for j, nm in enumerate(names):
                if colored[j]:
                    continue
                B = A[:, offs[j]:offs[j + 1]]
                r, c = np.nonzero(B)
                if r.size:
                    self.declare_partials('y', nm, rows=r, cols=c)
                    self.blocks[nm] = B[r, c].astype(float)
            self.declare_coloring(wrt=[nm for j, nm in enumerate(names) if colored[j]],
                                  method='cs', show_summary=False, **keep)

        def compute(self, inputs, outputs):
            outputs['y'] = A @ np.concatenate([inputs[nm] for nm in names])

        def compute_partials(self, inputs, partials):
            for nm, vals in self.blocks.items():
                partials['y', nm] = vals

    p = om.Problem()
    ivc = p.model.add_subsystem('ivc', om.IndepVarComp(), promotes=['*'])
    for j, nm in enumerate(names):
        ivc.add_output(nm, 0.5 * np.arange(1, sizes[j] + 1))
        p.model.add_design_var(nm)
    comp = p.model.add_subsystem('c', SubC(), promotes=['*'])
    p.model.add_constraint('y', lower=0.)
    p.driver = om.ScipyOptimizeDriver()
    if total_coloring:
        p.driver.declare_coloring(direct=case['direct'], show_summary=False, **keep)
    p.setup(mode=case['mode'], force_alloc_complex=True)
    p.run_model()
    return p, comp


def partial_exact(case):
    """Exact partial jacobian of a `partial` case at the point where it is evaluated, in the layout
    compute_totals is asked for (columns: x, then v for the bilinear ExecComp)."""
    A = matrix(case)
    m, n = A.shape
    if case['sub'] != 'execcomp_zero':
        return A
    x = np.arange(1, n + 1) * 0.5
    v = np.array([[-2., 1.5, 3., -0.5, 2., 4., -1.][c % 7] for c in range(n)])
    return np.hstack([A * v[None, :], A * x[None, :]])     # y_r = sum_c a_rc * x_c * v_c


def partial_problem(case, colored):
    import openmdao.api as om
    A = matrix(case)
    m, n = A.shape
    p = om.Problem()
    wrt = ['x']
    if case['sub'] == 'comp_cs':
        Lin = _lin_class()
        p.model.add_subsystem('ivc', om.IndepVarComp('x', np.ones(n)), promotes=['*'])
        comp = p.model.add_subsystem('c', Lin(A, approx='colored' if colored else 'plain'),
                                     promotes=['*'])
        ofs = ['y']
    elif case['sub'] == 'execcomp_zero':
        # bilinear rows y_r = sum_c a_rc * x[c] * v[c]; the first linearization (where ExecComp
        # computes its coloring) happens at x = 0, where every d y/d v vanishes numerically
        exprs = []
        for r in range(m):
            terms = ['%d.0*x[%d]*v[%d]' % (int(A[r, c]), c, c) for c in range(n)
                     if [r, c] in case['nz']]
            exprs.append('y%d = %s' % (r, ' + '.join(terms)))
        ivc = p.model.add_subsystem('ivc', om.IndepVarComp(), promotes=['*'])
        ivc.add_output('x', np.zeros(n))
        ivc.add_output('v', np.ones(n))
        comp = p.model.add_subsystem('c', om.ExecComp(exprs, x=np.zeros(n), v=np.ones(n),
                                                      do_coloring=colored), promotes=['*'])
        ofs = ['y%d' % r for r in range(m)]
        wrt = ['x', 'v']
    else:
        exprs = []
        for r in range(m):
            terms = ['%d.0*x[%d]' % (int(A[r, c]), c) for c in range(n) if [r, c] in case['nz']]
            exprs.append('y%d = %s' % (r, ' + '.join(terms)))
        p.model.add_subsystem('ivc', om.IndepVarComp('x', np.ones(n)), promotes=['*'])
        comp = p.model.add_subsystem('c', om.ExecComp(exprs, x=np.ones(n), do_coloring=colored),
                                     promotes=['*'])
        ofs = ['y%d' % r for r in range(m)]
    p.setup(force_alloc_complex=True)
    if case['sub'] == 'execcomp_zero':
        p.run_model()
        p.compute_totals(of=ofs, wrt=wrt, return_format='array')     # first linearization at x = 0
        p.set_val('v', np.array([[-2., 1.5, 3., -0.5, 2., 4., -1.][c % 7] for c in range(n)]))
    p.set_val('x', np.arange(1, n + 1) * 0.5)
    p.run_model()
    J = p.compute_totals(of=ofs, wrt=wrt, return_format='array')
    return p, comp, np.array(J)


# ------------------------------------------------------------------------------------------------

class C03(Property):
    pid = 'C03'
    workers = 8
    tolerance = PARTIAL_TOL
    required_theorems = ['C03_recover_linear', 'C03_certificate', 'C03_greedy_proper',
                         'C03_orderByID_visits_once', 'C03_fwd_partition', 'C03_unidirectional_exact',
                         'C03_auto_not_worse', 'C03_auto_exact', 'C03_scaled_exact',
                         'C03_scaled_late_partial', 'C03_scaled_late_counterexample']
    rule = ("cases: (pat) every boolean pattern of every shape with <= 9 cells (quick, except that the "
            "1xk / kx1 shapes with k >= 7 are sampled, 40 each; thorough: every pattern with <= 12 cells "
            "and 4x4, vectors with k >= 7 sampled 200 each) and random / structured patterns (arrowhead, banded, block-diagonal with a "
            "dense row and column, ...) up to 40x40, each with a seeded integer matrix, through "
            "_compute_coloring in modes fwd, rev, auto x {direct, substitution} and MNCO_bidir; (total) "
            "real Problems whose total jacobian has the pattern, colored vs uncolored compute_totals "
            "with fixed or dynamic coloring and optional driver scaling; (requests) a colored driver followed by "
            "a sequence of compute_totals requests with other (of, wrt) layouts - subset / reordered of "
            "only, wrt only, both, default again, custom first - each compared entry by entry with an "
            "uncolored twin, in fwd, rev and auto mode; (subcolor) a component with a partial cs coloring "
            "over a subset of its inputs and analytic partials for the rest under a driver with a total "
            "coloring, colored vs uncolored totals; (requests, continued) half of the dynamic ones continued by changing the "
            "component's sparsity through an option, setup() again on the same Problem (once or twice) and "
            "repeating the requests, the final coloring certified against the last sparsity; (partial) colored vs uncolored "
            "partials of a cs-approximated component and of an ExecComp. Non-trivial: some color holds "
            "two or more columns/rows or the coloring has subtractions; distinct by canonical case.")
    assumptions = ["matrices hold small integers (and power-of-two scalers) so the float computation of "
                   "the real code is exact and compared for equality; complex-step partials are compared "
                   "with relative tolerance 1e-12"]
    level_text = ("The consumers of a coloring (colored solve = sum of a color's columns/rows; writes of "
                  "simul_coloring_jac_setter / colored_jac_iter; _apply_subtractions in list order) are "
                  "modelled in Lean and proved linear in the matrix, which makes a single symbolic run a "
                  "sound decision procedure (certify) for 'every matrix with this pattern over every "
                  "commutative ring is reconstructed exactly'. The unidirectional algorithm (column "
                  "adjacency, incidence-degree order with its -ncols sentinel, greedy grouping) is "
                  "modelled literally and proved for every pattern of every size: the visiting order is a "
                  "permutation, groups are structurally orthogonal partitions of the nonzero columns "
                  "(rows), reconstruction is exact, and the number of solves is at most ncols (nrows); the "
                  "mode-auto fallback never returns more than min(nrows, ncols) solves. The model is tied "
                  "to the real code by identical groups on every generated pattern, and every "
                  "bidirectional coloring the real MNCO code returns is validated by certify.")
    level_note = ("Bidirectional colorings (MNCO partition, direct and substitution adjacency, "
                  "_get_subtractions, networkx ordering of subtractions) are NOT proved correct as an "
                  "algorithm: their output is validated per generated pattern by the proven-sound "
                  "certify (translation validation), which covers all matrix values for that pattern but "
                  "only the patterns generated. Trusted: Lean kernel + standard axioms; the Python "
                  "harness; scipy.sparse conversions inside the real code. Modelled, not verified: float "
                  "rounding (integer data, exact comparison), how compute_totals obtains the colored "
                  "products from the linear solves (differential: colored vs uncolored totals on real "
                  "Problems), the order of scaling and subtractions (probed at run time, flag `late`).")
    technique = "Lean 4 proof (linearity + certificate, greedy coloring invariants) + translation validation + exact differential correspondence"
    trusted_extra = ["scipy.sparse format conversions used by the real coloring code",
                     "networkx topological sort used by _sort_subtractions (its output order is "
                     "validated by certify, not trusted)"]

    late = None     # does the real compute_totals apply subtractions after scaling? (probed)

    # -- setup: import once before forking, probe the order of scaling and subtractions -------------
    def setup(self, tier):
        import openmdao.api as om    # noqa: F401
        from common import in_tempdir
        self.tier = tier
        # a case costs 2-6 ms of scipy.sparse bookkeeping; forked workers pay off only for the
        # exhaustive enumeration of the thorough tier
        self.workers = 8 if tier == 'thorough' else 1
        # the smallest pattern with a subtraction (lean: exPattern / exColoring), all-ones matrix,
        # response scaler 2 on row 2: subtractions after scaling give 3 at (2,2), before scaling 2
        case = {'k': 'total', 'm': 3, 'n': 3, 'nz': [[0, 2], [1, 0], [1, 1], [1, 2], [2, 2]],
                'vseed': 1, 'ones': True, 'direct': False, 'dyn': False, 'mode': 'auto',
                'fam': 'probe', 'rowscale': ['1/1', '1/1', '2/1'], 'colscale': None}
        self.late = None
        try:
            with warnings.catch_warnings():
                warnings.simplefilter('ignore')
                p, J = in_tempdir(lambda: total_problem(case, True))
            col = p.driver._coloring_info.coloring
            if col is not None and col._subtractions:
                if J[2, 2] == 3.0:
                    self.late = True
                elif J[2, 2] == 2.0:
                    self.late = False
        except Exception:
            self.late = None

    # -- generator -----------------------------------------------------------------------------------
    def cases(self, rng, tier):
        quick = tier != 'thorough'
        out = []
        # targeted family first: a colored driver, then compute_totals requests with other layouts
        n_req = 14 if quick else 160
        for i in range(n_req):
            fam = ['arrow', 'banded', 'blockdiag', 'corners', 'sparse+partial'][i % 5]
            m, n = rng.randint(4, 9), rng.randint(4, 9)
            J = family(rng, fam, m, n)
            for r in range(m):
                if not J[r].any():
                    J[r, rng.randrange(n)] = True
            for c in range(n):
                if not J[:, c].any():
                    J[rng.randrange(m), c] = True
            case = {'k': 'requests', 'm': m, 'n': n, 'nz': nz_of(J), 'fam': fam,
                    'vseed': rng.randrange(10 ** 9),
                    'split': [rng.randint(1, m - 1), rng.randint(1, n - 1)],
                    'mode': ['fwd', 'rev', 'auto'][i % 3], 'dyn': i % 4 != 3,
                    'direct': rng.random() < 0.5,
                    'first': ['default', 'default', 'wrt', 'of'][(i // 3) % 4]}
            if case['dyn'] and i % 2 == 0:
                # re-setup sequence: the same Problem is set up again with another sparsity of the
                # same shape (and, every other time, a third time with the first one)
                fam2 = ['banded', 'blockdiag', 'arrow', 'sparse+partial', 'corners'][i % 5]
                J2 = family(rng, fam2, m, n)
                for r in range(m):
                    if not J2[r].any():
                        J2[r, rng.randrange(n)] = True
                for c in range(n):
                    if not J2[:, c].any():
                        J2[rng.randrange(m), c] = True
                case['resetup'] = [{'nz': nz_of(J2), 'vseed': rng.randrange(10 ** 9)}]
                if i % 4 == 0:
                    case['resetup'].append({'nz': case['nz'], 'vseed': rng.randrange(10 ** 9)})
            out.append(case)
        # partial coloring over a subset of a component's inputs + total coloring on the driver
        n_sub = 10 if quick else 120
        for i in range(n_sub):
            fam = ['band', 'arrow', 'blockdiag', 'sparse+partial'][i % 4]
            nin = rng.choice([2, 2, 3])
            sizes = [rng.randint(2, 5) for _ in range(nin)]
            n = sum(sizes)
            m = rng.randint(3, 7)
            if fam == 'band':
                bw = rng.randint(0, 1)
                sh = rng.randint(0, max(0, n - m))
                J = np.array([[abs(r + sh - c) <= bw for c in range(n)] for r in range(m)])
            else:
                J = family(rng, fam, m, n)
            for r in range(m):
                if not J[r].any():
                    J[r, rng.randrange(n)] = True
            for c in range(n):
                if not J[:, c].any():
                    J[rng.randrange(m), c] = True
            colored = [False] * nin
            for j in rng.sample(range(nin), rng.randint(1, nin - 1)):
                colored[j] = True
            if i % 2 == 0:
                colored = [False] + [True] * (nin - 1)    # an analytic input ahead of the colored ones
            out.append({'k': 'subcolor', 'm': m, 'n': n, 'nz': nz_of(J), 'fam': fam,
                        'vseed': rng.randrange(10 ** 9), 'sizes': sizes, 'colored': colored,
                        'mode': ['fwd', 'rev', 'auto'][i % 3], 'direct': rng.random() < 0.5,
                        'keep': i % 5 != 4})
        if quick:
            out.extend(exhaustive(9, sample_vectors=(rng, 40)))
        else:
            out.extend(exhaustive(12, extra_shapes=[(4, 4)], sample_vectors=(rng, 200)))
        n_rand = 160 if quick else 1500
        for i in range(n_rand):
            fam = FAMILIES[i % len(FAMILIES)]
            big = rng.random() < (0.15 if quick else 0.4)
            hi = 40 if big else 16
            m, n = rng.randint(2, hi), rng.randint(2, hi)
            J = family(rng, fam, m, n)
            out.append({'k': 'pat', 'm': m, 'n': n, 'nz': nz_of(J), 'fam': fam,
                        'vseed': rng.randrange(10 ** 9)})
        n_tot = 24 if quick else 300
        for i in range(n_tot):
            fam = ['arrow', 'banded', 'blockdiag', 'corners', 'sparse+partial'][i % 5]
            m, n = rng.randint(3, 9), rng.randint(3, 9)
            J = family(rng, fam, m, n)
            # every design variable and every response takes part
            for r in range(m):
                if not J[r].any():
                    J[r, rng.randrange(n)] = True
            for c in range(n):
                if not J[:, c].any():
                    J[rng.randrange(m), c] = True
            sc = rng.choice(['none', 'none', 'row', 'col', 'both'])
            case = {'k': 'total', 'm': m, 'n': n, 'nz': nz_of(J), 'fam': fam,
                    'vseed': rng.randrange(10 ** 9), 'direct': rng.random() < 0.35,
                    'dyn': rng.random() < 0.4, 'mode': rng.choice(['auto', 'auto', 'auto', 'fwd', 'rev']),
                    'rowscale': None, 'colscale': None}
            if sc in ('row', 'both'):
                case['rowscale'] = [rat(rng.choice(POW2) * rng.choice([1, 1, 1, -1])) for _ in range(m)]
            if sc in ('col', 'both'):
                case['colscale'] = [rat(rng.choice(POW2)) for _ in range(n)]
            out.append(case)
        n_par = 12 if quick else 150
        for i in range(n_par):
            fam = ['banded', 'arrow', 'blockdiag', 'random'][i % 4]
            m, n = rng.randint(2, 7), rng.randint(2, 7)
            J = family(rng, fam, m, n)
            sub = ['comp_cs', 'execcomp', 'execcomp_zero'][i % 3]
            if sub != 'comp_cs' and i % 2 == 0:
                # ExecComp keeps its coloring only if it saves solves: a narrow band, a few extras
                fam = 'band'
                m, n = rng.randint(4, 8), rng.randint(5, 9)
                bw = rng.randint(0, 1)
                J = np.array([[abs(r - c) <= bw for c in range(n)] for r in range(m)])
                for _ in range(rng.randint(0, 2)):
                    J[rng.randrange(m), rng.randrange(n)] = True
            for r in range(m):
                if not J[r].any():
                    J[r, rng.randrange(n)] = True
            out.append({'k': 'partial', 'sub': sub, 'm': m, 'n': n,
                        'nz': nz_of(J), 'fam': fam, 'vseed': rng.randrange(10 ** 9)})
        return out

    # -- real code -----------------------------------------------------------------------------------
    def run_impl(self, case):
        try:
            with warnings.catch_warnings():
                warnings.simplefilter('ignore')
                if case['k'] == 'pat':
                    return self.impl_pat(case)
                if case['k'] == 'total':
                    from common import in_tempdir
                    return in_tempdir(lambda: self.impl_total(case))
                if case['k'] == 'partial':
                    from common import in_tempdir
                    return in_tempdir(lambda: self.impl_partial(case))
                if case['k'] == 'requests':
                    from common import in_tempdir
                    return in_tempdir(lambda: self.impl_requests(case))
                if case['k'] == 'subcolor':
                    from common import in_tempdir
                    return in_tempdir(lambda: self.impl_subcolor(case))
        except Exception as e:
            return {'error': type(e).__name__, 'msg': str(e)[:300]}
        raise Infra('unknown case kind %r' % case.get('k'))

    def impl_pat(self, case):
        from openmdao.utils.coloring import _compute_coloring, MNCO_bidir
        from scipy.sparse import coo_matrix
        J = dense(case)
        M = matrix(case)
        cols = {}
        cols['fwd'] = _compute_coloring(J, 'fwd')
        cols['rev'] = _compute_coloring(J, 'rev')
        for name, raw, direct in (('auto_d', 'bidir_d', True), ('auto_s', 'bidir_s', False)):
            with RecordMNCO() as rec:
                cols[name] = _compute_coloring(J, 'auto', direct=direct)
            if len(rec.out) == 1:
                cols[raw] = rec.out[0]
            else:
                r, c = np.nonzero(J)
                cols[raw] = MNCO_bidir(coo_matrix((np.ones(r.size, dtype=bool), (r, c)),
                                                  shape=J.shape), direct=direct)
        res = {'cols': {}, 'meta': {}, 'bad': {}, 'expand': {}, 'J': {}}
        nzset = {tuple(p) for p in case['nz']}
        for name, col in cols.items():
            res['cols'][name] = colj(col)
            res['meta'][name] = {'fallback': bool(col._meta.get('fallback')),
                                 'bidirectional': bool(col._meta.get('bidirectional'))}
            R = real_reconstruct(col, M)
            res['bad'][name] = diff_entries(R, M)
            if name in ('auto_s', 'bidir_s'):
                res['J'][name] = {'nz': [rat(R[r, c]) for r, c in case['nz']],
                                  'extra': [[int(r), int(c), rat(R[r, c])]
                                            for r, c in np.argwhere(R != 0)
                                            if (int(r), int(c)) not in nzset][:20]}
        # Coloring._expand_jac for the unidirectional colorings
        T = cols['fwd'].tangent_matrix('fwd')
        E = cols['fwd']._expand_jac(M @ T.T, 'fwd').toarray() if T.shape[0] else np.zeros_like(M)
        res['expand']['fwd'] = diff_entries(E, M)
        T = cols['rev'].tangent_matrix('rev')
        E = cols['rev']._expand_jac(T @ M, 'rev').toarray() if T.shape[0] else np.zeros_like(M)
        res['expand']['rev'] = diff_entries(E, M)
        return res

    def impl_total(self, case):
        A = matrix(case)
        m, n = A.shape
        rs = np.array([float(unrat(x)) for x in case['rowscale']]) if case.get('rowscale') else np.ones(m)
        cs = np.array([float(unrat(x)) for x in case['colscale']]) if case.get('colscale') else np.ones(n)
        expected = A * rs[:, None] / cs[None, :]
        p0, J0 = total_problem(case, False)
        p1, J1 = total_problem(case, True)
        col = p1.driver._coloring_info.coloring
        res = {'unc_ok': bool((J0 == expected).all()),
               'bad': diff_entries(J1, J0), 'bad_vs_expected': diff_entries(J1, expected),
               'col': None if col is None else colj(col),
               'J': [rat(J1[r, c]) for r, c in case['nz']],
               'extra': [[int(r), int(c), rat(J1[r, c])] for r, c in np.argwhere(J1 != 0)
                         if [int(r), int(c)] not in case['nz']][:20]}
        if col is not None:
            res['sparsity'] = sparsity_of(col)
        return res

    def impl_requests(self, case):
        m1, n1 = case['split']
        rows = {'y1': list(range(m1)), 'y2': list(range(m1, case['m']))}
        cols = {'x': list(range(n1)), 'w': list(range(n1, case['n']))}
        pu = requests_problem(case, False)
        pc = requests_problem(case, True)
        out = []
        for rnd, A in enumerate(round_matrices(case)):
            if rnd > 0:
                # change the component's sparsity through its option and set the Problem up again
                for p in (pu, pc):
                    p.model.c.options['which'] = rnd
                    p.setup(mode=case['mode'])
                    p.final_setup()
                    p.run_model()
            for kw in requests_of(case):
                ri = [i for v in kw.get('of', ['y1', 'y2']) for i in rows[v]]
                ci = [j for v in kw.get('wrt', ['x', 'w']) for j in cols[v]]
                exact = A[np.ix_(ri, ci)]
                Ju = np.array(pu.compute_totals(return_format='array', **kw))
                rec = {'kw': kw, 'round': rnd,
                       'unc_ok': bool(Ju.shape == exact.shape and (Ju == exact).all())}
                try:
                    Jc = np.array(pc.compute_totals(return_format='array', **kw))
                    if Jc.shape != Ju.shape:
                        rec['shape'] = [list(Jc.shape), list(Ju.shape)]
                    else:
                        rec['bad'] = diff_entries(Jc, Ju)
                except Exception as e:
                    rec['raised'] = type(e).__name__
                    rec['msg'] = str(e)[:200]
                out.append(rec)
        col = pc.driver._coloring_info.coloring
        res = {'requests': out, 'col': None if col is None else colj(col)}
        if col is not None:
            res['sparsity'] = sparsity_of(col)
            res['shape'] = [int(col._shape[0]), int(col._shape[1])]
        return res

    def impl_subcolor(self, case):
        A = matrix(case)
        scale = max(1.0, float(np.abs(A).max()))
        names = ['x%d' % j for j in range(len(case['sizes']))]
        pu, cu = subcolor_problem(case, False)
        pc, cc = subcolor_problem(case, True)
        Ju = np.array(pu.compute_totals(of=['y'], wrt=names, return_format='array'))
        J1 = np.array(pc.compute_totals(return_format='array'))
        J2 = np.array(pc.compute_totals(return_format='array'))
        col = pc.driver._coloring_info.coloring
        pcol = cc._coloring_info.coloring
        res = {'err': float(max(np.abs(J1 - Ju).max(), np.abs(J2 - Ju).max())) / scale,
               'err_exact': float(max(np.abs(J1 - A).max(), np.abs(J2 - A).max())) / scale,
               'unc_err': float(np.abs(Ju - A).max()) / scale,
               'bad': [[int(r), int(c), float(J2[r, c]), float(Ju[r, c])]
                       for r, c in np.argwhere(np.abs(J2 - Ju) > PARTIAL_TOL * scale)[:6]],
               'col': None if col is None else colj(col),
               'partial_coloring_kept': pcol is not None}
        if col is not None:
            res['sparsity'] = sparsity_of(col)
            res['shape'] = [int(col._shape[0]), int(col._shape[1])]
        return res

    def impl_partial(self, case):
        A = matrix(case)
        p0, c0, J0 = partial_problem(case, False)
        p1, c1, J1 = partial_problem(case, True)
        col = c1._coloring_info.coloring
        E = partial_exact(case)
        scale = max(1.0, float(np.abs(E).max()))
        err = float(np.abs(J1 - J0).max()) / scale
        err_exact = float(np.abs(J1 - E).max()) / scale
        res = {'err': err, 'err_exact': err_exact, 'unc_err': float(np.abs(J0 - E).max()) / scale,
               'col': None if col is None else colj(col)}
        if col is not None:
            res['sparsity'] = sparsity_of(col)
            res['shape'] = [int(col._shape[0]), int(col._shape[1])]
        return res

    # -- the property, evaluated directly ------------------------------------------------------------
    def oracle(self, case, impl):
        if 'error' in impl:
            return {'what': 'the real code raised %s' % impl['error'], 'code': 'raised',
                    'msg': impl.get('msg')}
        m, n = case['m'], case['n']
        if case['k'] == 'pat':
            for name, cj in impl['cols'].items():
                if impl['bad'][name]:
                    return {'what': 'a matrix with the pattern is not reconstructed exactly',
                            'code': 'reconstruction', 'coloring': name, 'entries': impl['bad'][name]}
                pf = partition_failures(case, name, cj)
                if pf:
                    return {'what': pf[0], 'code': 'partition', 'coloring': name}
            for name in ('fwd', 'rev'):
                if impl['expand'][name]:
                    return {'what': 'Coloring._expand_jac does not return the matrix',
                            'code': 'expand', 'coloring': name, 'entries': impl['expand'][name]}
            tot = {k: v['total'] for k, v in impl['cols'].items()}
            if tot['fwd'] > n or tot['rev'] > m:
                return {'what': 'a unidirectional coloring needs more solves than no coloring',
                        'code': 'solves', 'totals': tot}
            for name in ('auto_d', 'auto_s'):
                if tot[name] > min(m, n, tot['fwd'], tot['rev']):
                    return {'what': "mode 'auto' needs more solves than the uncolored or a "
                                    "unidirectional computation", 'code': 'solves', 'coloring': name,
                            'totals': tot}
            return None
        if case['k'] == 'total':
            if impl['bad']:
                return {'what': 'colored total derivatives differ from uncolored ones',
                        'code': 'totals', 'entries': impl['bad']}
            if impl['col'] is not None and impl['col']['total'] > \
                    {'fwd': n, 'rev': m, 'auto': min(m, n)}[case['mode']]:
                return {'what': 'the coloring used needs more solves than no coloring',
                        'code': 'solves', 'total': impl['col']['total']}
            return None
        if case['k'] == 'requests':
            for k, rec in enumerate(impl['requests']):
                what = 'request %d (after setup #%d) compute_totals(%s) on the colored problem' % (
                    k, rec.get('round', 0) + 1,
                    ', '.join('%s=%s' % kv for kv in sorted(rec['kw'].items())))
                if 'raised' in rec:
                    return {'what': what + ' raised %s (the uncolored twin returns the totals)'
                            % rec['raised'], 'code': 'request-raised', 'request': k,
                            'round': rec.get('round', 0), 'msg': rec.get('msg')}
                if 'shape' in rec:
                    return {'what': what + ' has another shape than on the uncolored twin',
                            'code': 'request-shape', 'request': k, 'round': rec.get('round', 0),
                            'shapes': rec['shape']}
                if rec['bad']:
                    return {'what': what + ' differs from the uncolored twin',
                            'code': 'request-totals', 'request': k, 'round': rec.get('round', 0),
                            'entries': rec['bad']}
            col = impl['col']
            if col is not None and (impl['shape'] != [m, n] or col['total'] >
                                    {'fwd': n, 'rev': m, 'auto': min(m, n)}[case['mode']]):
                return {'what': "the driver's coloring is not one for the driver's own total jacobian "
                                "or needs more solves than no coloring", 'code': 'request-coloring',
                        'shape': impl['shape'], 'total': col['total']}
            return None
        if case['k'] == 'subcolor':
            if impl['err'] > PARTIAL_TOL or impl['err_exact'] > PARTIAL_TOL:
                return {'what': 'colored total derivatives differ from uncolored ones (component with a '
                                'partial coloring over a subset of its inputs, total coloring on the '
                                'driver)', 'code': 'subcolor-totals', 'err': impl['err'],
                        'err_exact': impl['err_exact'], 'entries': impl['bad']}
            if impl['col'] is not None and impl['col']['total'] > \
                    {'fwd': n, 'rev': m, 'auto': min(m, n)}[case['mode']]:
                return {'what': 'the coloring used needs more solves than no coloring',
                        'code': 'solves', 'total': impl['col']['total']}
            return None
        if case['k'] == 'partial':
            if impl['err'] > PARTIAL_TOL or impl['err_exact'] > PARTIAL_TOL:
                return {'what': 'colored partial derivatives differ from uncolored ones',
                        'code': 'partials', 'err': impl['err'], 'err_exact': impl['err_exact']}
            if impl['col'] is not None and impl['col']['total'] > impl['shape'][1]:
                return {'what': 'the partial coloring needs more solves than no coloring',
                        'code': 'solves', 'total': impl['col']['total']}
            return None
        return None

    def _uniform_scale(self, case, impl):
        """Is the scale factor the same at all positions each subtraction combines?"""
        col = impl.get('col')
        if not col or not col['subs']:
            return True
        m, n = case['m'], case['n']
        rs = [unrat(x) for x in case['rowscale']] if case.get('rowscale') else [Fraction(1)] * m
        cs = [unrat(x) for x in case['colscale']] if case.get('colscale') else [Fraction(1)] * n
        s = lambda p: rs[p[0]] / cs[p[1]]
        return all(s(k) == s(pos) for pos, ks in col['subs'] for k in ks)

    def signature(self, case, impl, failure):
        sig = {'kind': case['k'], 'code': failure.get('code'), 'coloring': failure.get('coloring')}
        if case['k'] == 'total' and 'error' not in impl:
            col = impl.get('col') or {}
            subs = col.get('subs') or []
            targets = {tuple(s[0]) for s in subs}
            # positions whose value depends on a subtraction target: targets and what is subtracted
            # from later targets; the wrong entries must all be subtraction targets
            sig.update({'scaled': bool(case.get('rowscale') or case.get('colscale')),
                        'subtractions': bool(subs),
                        'uniform_scale_on_subtractions': self._uniform_scale(case, impl),
                        'only_subtraction_targets_wrong':
                            bool(failure.get('entries')) and
                            all((e[0], e[1]) in targets for e in impl['bad'])})
        return sig

    def nontrivial(self, case, impl):
        if 'error' in impl:
            return True
        cols = impl['cols'].values() if case['k'] == 'pat' else [impl.get('col') or {}]
        for cj in cols:
            if any(len(g) > 1 for g in cj.get('fwd', []) + cj.get('rev', [])) or cj.get('subs'):
                return True
        return False

    def bucket(self, case, impl):
        b = ['kind=' + case['k'], 'family=' + case['fam'],
             'size=%s' % ('<=9 cells' if case['m'] * case['n'] <= 9 else
                          '<=16 cells' if case['m'] * case['n'] <= 16 else
                          'side<=16' if max(case['m'], case['n']) <= 16 else 'side<=40')]
        if 'error' in impl:
            return b + ['impl_error=' + impl['error']]
        if case['k'] == 'pat':
            for name, lab in (('auto_d', 'direct'), ('auto_s', 'substitution')):
                cj, meta = impl['cols'][name], impl['meta'][name]
                kept = 'bidirectional' if (cj['fwd'] and cj['rev']) else \
                    ('fwd' if cj['fwd'] else 'rev' if cj['rev'] else 'empty')
                b.append('auto/%s kept=%s%s' % (lab, kept, ' (fallback)' if meta['fallback'] else ''))
            b.append('auto/substitution subtractions:%s'
                     % ('nonempty' if impl['cols']['auto_s']['subs'] else 'empty'))
            if 'bidir_s' in impl['cols']:
                b.append('MNCO/substitution subtractions:%s'
                         % ('nonempty' if impl['cols']['bidir_s']['subs'] else 'empty'))
        elif case['k'] == 'subcolor':
            col = impl['col']
            b.append('subcolor: mode=%s inputs=%d colored=%s total coloring=%s partial coloring %s' % (
                case['mode'], len(case['sizes']), ''.join('c' if x else 'a' for x in case['colored']),
                'none' if col is None else 'bidirectional' if col['fwd'] and col['rev'] else
                'fwd' if col['fwd'] else 'rev', 'kept' if impl['partial_coloring_kept'] else 'dropped'))
        elif case['k'] == 'requests':
            col = impl['col']
            b.append('requests: mode=%s %s first=%s coloring=%s' % (
                case['mode'], 'dynamic' if case['dyn'] else 'fixed', case['first'],
                'none' if col is None else 'bidirectional' if col['fwd'] and col['rev'] else
                'fwd' if col['fwd'] else 'rev'))
            b.append('requests: setups on one Problem=%d' % (1 + len(case.get('resetup') or [])))
            b.append('requests: compute_totals calls compared=%d' % len(impl['requests']))
        elif case['k'] == 'total':
            col = impl['col']
            b.append('total: mode=%s %s %s scaling=%s' % (
                case['mode'], 'dynamic' if case['dyn'] else 'fixed',
                'direct' if case['direct'] else 'substitution',
                '+'.join(k for k in ('rowscale', 'colscale') if case.get(k)) or 'none'))
            b.append('total: coloring %s' % ('dropped' if col is None else
                                             'bidirectional' if col['fwd'] and col['rev'] else
                                             'fwd' if col['fwd'] else 'rev'))
            b.append('total: subtractions:%s' % ('nonempty' if col and col['subs'] else 'empty'))
        else:
            b.append('partial: %s coloring=%s' % (case['sub'], 'none' if impl['col'] is None else 'used'))
        return b

    # -- Lean model ------------------------------------------------------------------------------------
    def model_requests(self, case, impl):
        if 'error' in impl:
            return []
        base = {'op': 'batch', 'nrows': case['m'], 'ncols': case['n'], 'nz': case['nz']}
        reqs = []
        if case['k'] == 'pat':
            reqs.append({'op': 'color', 'mode': 'fwd'})
            reqs.append({'op': 'color', 'mode': 'rev'})
            for name in ('auto_d', 'auto_s', 'bidir_d', 'bidir_s'):
                if name in impl['cols']:
                    reqs.append({'op': 'certify', 'col': impl['cols'][name], 'tag': name})
            for name, raw in (('auto_d', 'bidir_d'), ('auto_s', 'bidir_s')):
                if raw in impl['cols']:
                    reqs.append({'op': 'auto', 'bidir': impl['cols'][raw], 'tag': name})
            vals = [rat(v) for v in (matrix(case)[r, c] for r, c in case['nz'])]
            for name in ('auto_s', 'bidir_s'):
                if name in impl['cols']:
                    reqs.append({'op': 'recover', 'col': impl['cols'][name], 'vals': vals, 'tag': name})
        elif impl.get('col') is not None:
            # the coloring is certified for the sparsity it was computed for (detected by the framework)
            rq = {'op': 'certify', 'col': impl['col'], 'tag': 'used', 'nz': impl['sparsity']}
            if 'shape' in impl:
                rq['nrows'], rq['ncols'] = impl['shape']
            if case['k'] == 'subcolor':
                # the total coloring must be one for the true total jacobian pattern
                rq['nz'] = sorted(case['nz'])
            if case['k'] == 'requests':
                # the coloring the driver ends with must be one for the sparsity of the LAST setup
                rq['nz'] = sorted((case.get('resetup') or [case])[-1]['nz'])
            reqs.append(rq)
            if case['k'] == 'total' and self.late is not None and \
                    impl['sparsity'] == sorted(case['nz']):
                m, n = case['m'], case['n']
                rs = case.get('rowscale') or ['1/1'] * m
                cs = [rat(1 / unrat(x)) for x in case['colscale']] if case.get('colscale') \
                    else ['1/1'] * n
                vals = [rat(v) for v in (matrix(case)[r, c] for r, c in case['nz'])]
                reqs.append({'op': 'recover', 'col': impl['col'], 'vals': vals, 'rowscale': rs,
                             'colscale': cs, 'late': self.late, 'tag': 'scaled'})
        if not reqs:
            return []
        base['reqs'] = reqs
        return [base]

    def compare(self, case, impl, answers):
        res = answers[0]['res']
        reqs = self.model_requests(case, impl)[0]['reqs']
        for rq, a in zip(reqs, res):
            op = rq['op']
            if op == 'color':
                real = impl['cols'][rq['mode']]
                for k in ('fwd', 'rev', 'fwdNz', 'revNz'):
                    if a['col'][k] != real[k]:
                        return "mode %s: Lean %s %s != real %s" % (rq['mode'], k, a['col'][k], real[k])
            elif op == 'certify':
                if not a['wf']:
                    return 'pattern not well formed on the Lean side'
                if not a['ok']:
                    return "certify rejects the real coloring '%s' at %s" % (rq['tag'], a['bad'][:5])
            elif op == 'auto':
                real = impl['cols'][rq['tag']]
                for k in ('fwd', 'rev', 'subs'):
                    if a['col'][k] != real[k]:
                        return "auto (%s): Lean keeps %s with %s=%s, real code has %s" % (
                            rq['tag'], a['kept'], k, a['col'][k], real[k])
            elif op == 'recover':
                if case['k'] == 'pat':
                    real = impl['J'][rq['tag']]
                    extra = {(e[0], e[1]): e[2] for e in real['extra']}
                    realnz = real['nz']
                else:
                    extra = {(e[0], e[1]): e[2] for e in impl['extra']}
                    realnz = impl['J']
                if [unrat(x) for x in a['J']] != [unrat(x) for x in realnz]:
                    return "recover (%s): Lean %s != real %s" % (rq['tag'], a['J'], realnz)
                for pos, v in a['outside']:
                    if unrat(v) != unrat(extra.get(tuple(pos), '0/1')):
                        return "recover (%s): outside the pattern at %s Lean %s != real %s" % (
                            rq['tag'], pos, v, extra.get(tuple(pos), '0/1'))
        return None


PROP = C03()
