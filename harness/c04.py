"""C04 — connected inputs hold their source value with indices and units applied."""
import random
import warnings
from fractions import Fraction

import numpy as np

import genmodel as gm
from common import Property, rat, unrat, rats, Infra

RTOL = 1e-9


def conn_form(md, cn):
    """Classify a connection by the index forms OpenMDAO has known trouble with."""
    if cn['src'] is None:
        return 'auto_ivc'
    sci, soname = cn['src']
    sod = [o for o in md['comps'][sci]['outs'] if o['name'] == soname][0]
    shape = list(sod['shape'])
    forms = []
    for lev in cn['chain']:
        t = lev['spec']['t']
        if not lev['flat'] and len(shape) >= 2 and t in ('int', 'arr', 'list', 'slice'):
            forms.append('nonflat_nontuple_rank2')
        specs = lev['spec']['v'] if t == 'tup' else [lev['spec']]
        for sp in specs:
            if sp['t'] == 'slice':
                a, b, c = sp['v']
                if c is not None and c < 0 and a is None and b is not None:
                    forms.append('negstep_slice_open_start')
        _, shape = gm.np_level_positions(shape, lev)
    return '+'.join(sorted(set(forms))) if forms else 'plain'


class C04(Property):
    pid = 'C04'
    workers = 8
    tolerance = RTOL
    required_theorems = ['C04_chain_naturality', 'C04_chain_needs_bounds', 'C04_scaled_transfer',
                         'C04_after_sweep', 'C04_input_value', 'C04_transfer_subst',
                         'C04_chain_specs_numpy', 'C04_tuple_levels_refine',
                         'C04_connected_value_numpy']
    rule = ("cases: random acyclic models from harness/genmodel.py (1-2 IndepVarComps, 2-5 polynomial "
            "explicit components in nested groups; every input connected by connect()/promotes() "
            "with src_indices chains of 0-3 levels in all index forms (int, negative, slice, array, "
            "list, tuple, ellipsis; flat and non-flat; sources of rank 1-3), unit conversions incl. "
            "offset units, auto-IVC inputs), run with run_model; the harness components log the "
            "inputs they see at every compute. Non-trivial: the model has at least one connection "
            "with indices or a unit conversion; distinct by generator seed/options.")
    assumptions = ["inputs are compared with the exact rational value to a relative tolerance of "
                   "1e-9 (unit factors are not dyadic)",
                   "index semantics reference is real NumPy; unit factors reference is the harness's "
                   "own exact table (genmodel.UNITS)"]
    trusted_extra = ["NumPy indexing as the reference semantics of src_indices (per level)",
                     "name resolution / promotion in OpenMDAO's setup is tied only differentially"]
    level_text = ("The transfer mechanism (flattened src_indices chains, gather, affine unit "
                  "conversion, combined solver-scaling factors, run-once sweep) is modelled in Lean; "
                  "proved for all chains/values/orders: chain flattening is natural w.r.t. gathering, "
                  "scaled transfer equals unit conversion of the physical value, inputs stay equal to "
                  "the transfer of the final outputs after a data-flow-ordered pass; and, composing C05's "
                  "indexer model, the per-level positions OpenMDAO's indexer computes from the index "
                  "specifications of a chain are NumPy's (tuple forms, every shape, every depth), so the "
                  "connected value is the level-by-level NumPy indexing of the source. Tied to the real "
                  "framework by running generated hierarchies and comparing every input seen at every "
                  "compute with the model and with an exact NumPy/Fraction oracle.")
    level_note = ("partial: theorems are about the flat ModelSpec; OpenMDAO's setup (promotion and "
                  "connection resolution, vector layout) is tied by differential runs only. Float "
                  "rounding by tolerance 1e-9.")
    technique = "Lean 4 proof (list/fold induction, ring) + differential correspondence on generated models"

    def cases(self, rng, tier):
        n = 120 if tier == 'quick' else 2500
        for _ in range(n):
            yield {'gen_seed': rng.randrange(10 ** 9),
                   'opts': {'safe_indices': rng.random() < 0.5, 'scaling': rng.random() < 0.3,
                            # two inputs promoted by one promotes() call with one src_indices object
                            'shared_promotes': rng.random() < 0.4}}

    def _md(self, case):
        return gm.gen_md(random.Random(case['gen_seed']), **case['opts'])

    def run_impl(self, case):
        md = self._md(case)
        res = {}
        try:
            with warnings.catch_warnings():
                warnings.simplefilter('ignore')
                log = []
                p, info = gm.build_problem(md, log=log)
                p.setup()
                gm.set_auto_ivc_values(p, md)
                p.run_model()
                res['log'] = [[path, {k: [float(x) for x in v] for k, v in d.items()}]
                              for path, d in log]
                # inputs as stored after the run
                final = {}
                for c in md['comps']:
                    if c['kind'] != 'explicit':
                        continue
                    for i in c['ins']:
                        nm = gm.comp_path(c) + '.' + i['name']
                        final[nm] = np.asarray(p.get_val(nm, from_src=False)).ravel().tolist()
                res['final'] = final
        except Exception as e:
            res['error'] = type(e).__name__
            res['msg'] = str(e)[:300]
        return res

    def _close(self, got, exp):
        if len(got) != len(exp):
            return False
        for g, e in zip(got, exp):
            e = float(e)
            if abs(g - e) > RTOL * max(1.0, abs(e)):
                return False
        return True

    def oracle(self, case, impl):
        md = self._md(case)
        forms = {(cn['tgt'][0], cn['tgt'][1]): conn_form(md, cn) for cn in md['conns']}
        present = sorted(set(f for f in forms.values() if f not in ('plain', 'auto_ivc')))
        if 'error' in impl:
            return {'what': 'setup/run_model raised %s' % impl['error'], 'msg': impl.get('msg'),
                    'attributed': 'error:' + ('risky_index_forms_present' if present else 'none')}
        outs, ins = gm.exact_state(md)
        by_path = {gm.comp_path(c): ci for ci, c in enumerate(md['comps'])}
        seen = set()
        for path, d in impl['log']:
            seen.add(path)
            for name, vals in d.items():
                if not self._close(vals, ins[path + '.' + name]):
                    return {'what': 'input seen at compute differs from indexed+converted source',
                            'input': path + '.' + name, 'got': vals,
                            'expected': [float(x) for x in ins[path + '.' + name]],
                            'attributed': forms[(by_path[path], name)]}
        for c in md['comps']:
            if c['kind'] == 'explicit' and gm.comp_path(c) not in seen:
                return {'what': 'component never evaluated', 'comp': gm.comp_path(c),
                        'attributed': 'none'}
        for nm, vals in impl['final'].items():
            if not self._close(vals, ins[nm]):
                path, _, name = nm.rpartition('.')
                return {'what': 'input after run_model differs from indexed+converted source',
                        'input': nm, 'got': vals, 'expected': [float(x) for x in ins[nm]],
                        'attributed': forms[(by_path[path], name)]}
        return None

    def signature(self, case, impl, failure):
        return {'attributed': failure.get('attributed')}

    def nontrivial(self, case, impl):
        md = self._md(case)
        for cn in md['conns']:
            if cn['chain']:
                return True
        return False

    def bucket(self, case, impl):
        md = self._md(case)
        b = ['impl_error' if 'error' in impl else 'impl_ok']
        for cn in md['conns']:
            b.append('conn_levels=%d' % len(cn['chain']))
            b.append('form=' + conn_form(md, cn))
            for lev in cn['chain']:
                b.append('idx=' + lev['spec']['t'] + ('/flat' if lev['flat'] else ''))
            if cn['src'] is not None and cn.get('promote_levels'):
                b.append('promoted_input')
        return b

    # -- model -----------------------------------------------------------------------------------
    def model_requests(self, case, impl):
        md = self._md(case)
        reqs = []
        self._chain_conns = getattr(self, '_chain_conns', {})
        idx = []
        for k, cn in enumerate(md['conns']):
            if cn['src'] is None:
                continue
            sci, soname = cn['src']
            sod = [o for o in md['comps'][sci]['outs'] if o['name'] == soname][0]
            reqs.append({'op': 'chain', 'n': int(np.prod(sod['shape'])),
                         'levels': gm.chain_levels(sod['shape'], cn['chain'])})
            # the same chain from the index *specifications*: Lean model of OpenMDAO's indexer
            # (C05) and of NumPy, level after level
            reqs.append({'op': 'chainspec', 'shape': list(sod['shape']),
                         'levels': [{'spec': gm.spec_wire(l['spec']), 'flat': bool(l['flat'])}
                                    for l in cn['chain']]})
            idx.append(k)
        spec = gm.flat_spec(md)
        reqs.append({'op': 'sweep', 'n': spec['n'], 'u0': spec['u0'], 'iters': 1,
                     'comps': [{'start': c['start'], 'len': c['len'], 'ins': c['ins'],
                                'polys': c['polys']} for c in spec['comps']]})
        return reqs

    def compare(self, case, impl, answers):
        md = self._md(case)
        # 1. Lean chain composition vs NumPy applied to the whole chain (model self-validation)
        k = 0
        for cn in md['conns']:
            if cn['src'] is None:
                continue
            sci, soname = cn['src']
            sod = [o for o in md['comps'][sci]['outs'] if o['name'] == soname][0]
            pos, _ = gm.np_positions(sod['shape'], cn['chain'])
            if answers[k]['pos'] != pos:
                raise Infra('Lean chainPos %s != NumPy chain %s' % (answers[k]['pos'], pos))
            k += 1
            cs = answers[k]
            lv = gm.chain_levels(sod['shape'], cn['chain'])
            if cs['np'].get('ok') != lv:
                raise Infra('Lean npIndex chain %s != NumPy levels %s for %s' % (cs['np'], lv, cn['chain']))
            if case['opts'].get('safe_indices') and (cs['om'].get('ok') != lv or cs['pos'] != pos):
                # tuple / rank-1 forms: C04_chain_specs_numpy says the indexer gives NumPy's positions
                return ('indexer model positions %s differ from NumPy %s for chain %s of %s'
                        % (cs['om'], lv, cn['chain'], sod['shape']))
            k += 1
        if 'error' in impl:
            return 'implementation raised %s; the model evaluates the sweep' % impl['error']
        spec = gm.flat_spec(md)
        mlog = answers[k]['log']
        if len(mlog) != len(spec['comps']):
            raise Infra('model log length')
        by_path = {c['path']: (c, l) for c, l in zip(spec['comps'], mlog)}
        for path, d in impl['log']:
            c, l = by_path[path]
            for name, o, size in c['in_slices']:
                exp = [unrat(x) for x in l[o:o + size]]
                if not self._close(d[name], exp):
                    return 'input %s.%s: implementation %s, model %s' % (
                        path, name, d[name], [float(x) for x in exp])
        return None


PROP = C04()
